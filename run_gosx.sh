#!/bin/bash
# usage: run_gosx.sh <pkg import path> <entries> [extra gosx flags]
# assembles the overlay for the package (rt + harness + registry) and runs gosx
set -e
PKG="$1"; ENTRIES="$2"; shift 2
REL="${PKG#Havoc/}"
HD="/verif/harness/$(echo "$REL" | sed 's#/#__#g')"
OV=$(mktemp -d /tmp/gosx_ov.XXXXXX)
trap 'rm -rf "$OV"' EXIT
echo "use ./check" ; exit 1
cp "$HD"/zz_verif_*.go "$OV"/
sed "s/PKGNAME/$PKGNAME/" /verif/harness/_rt/zz_verif_rt.go.tmpl > "$OV/zz_verif_rt.go"
{ echo "package $PKGNAME"; echo; echo "var verifHarnesses = map[string]func(){"; grep -h -o '^func H_[A-Za-z0-9_]*()' "$HD"/zz_verif_*.go | sed 's/^func \(H_[A-Za-z0-9_]*\)()/\t"\1": \1,/'; echo "}"; } > "$OV/zz_verif_registry.go"
/verif/bin/gosx -pkg "$PKG" -overlay "$OV" -entry "$ENTRIES" "$@"
