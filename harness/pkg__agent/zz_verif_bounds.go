package agent

// bounds (kept in one place; the registered values are the ones that ran clean)
const verifDispatchMaxL = 8
const verifDispatchDeepL = 64
const verifHistorySteps = 4
const verifChainMaxDepth = 3
const verifChainFullID = false
const verifChunkSteps = 4
const verifDownloadComps = 3
