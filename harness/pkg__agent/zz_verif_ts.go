package agent

// Recording implementation of agent.TeamServer shared by the harnesses of packages
// agent and handlers. The session-table methods mirror cmd/server/agent.go
// (AgentExist/AgentInstance/AgentAdd/LinkRemove); everything else records the call.

import (
	"errors"
	"net"
	"strconv"
	"time"

	"Havoc/pkg/packager"
)

type VerifCall struct {
	Name  string
	Agent *Agent
	Other *Agent
	ID    string
	Cmd   int
	Out   map[string]string
}

type VerifTS struct {
	Agents     Agents
	Logs       bool
	ServiceMagic int  // 0 = no third-party agent registered
	NoService  bool   // models Teamserver.Service == nil
	Calls      []VerifCall
	ServiceReplies int
	ExistCalls int
}

func (t *VerifTS) rec(c VerifCall) { t.Calls = append(t.Calls, c) }

// Effects = recorded calls other than the per-request bookkeeping that every request of a
// known agent triggers (AgentUpdate / AgentLastTimeCalled from UpdateLastCallback).
func (t *VerifTS) Effects() int {
	n := 0
	for _, c := range t.Calls {
		switch c.Name {
		case "AgentUpdate", "AgentLastTimeCalled":
		default:
			n++
		}
	}
	return n
}

func (t *VerifTS) CountCalls(name string) int {
	n := 0
	for _, c := range t.Calls {
		if c.Name == name {
			n++
		}
	}
	return n
}

func (t *VerifTS) AgentUpdate(a *Agent) { t.rec(VerifCall{Name: "AgentUpdate", Agent: a}) }
func (t *VerifTS) Died(a *Agent) {
	a.Active = false
	t.rec(VerifCall{Name: "Died", Agent: a})
}
func (t *VerifTS) ParentOf(a *Agent) (int, error) { return 0, errors.New("no parent") }
func (t *VerifTS) LinksOf(a *Agent) []int         { return nil }
func (t *VerifTS) LinkRemove(ParentAgent *Agent, LinkAgent *Agent, UpdateLinks bool) {
	LinkAgent.Active = false
	LinkAgent.Reason = "Disconnected"
	if UpdateLinks {
		for i := range ParentAgent.Pivots.Links {
			if ParentAgent.Pivots.Links[i].NameID == LinkAgent.NameID {
				ParentAgent.Pivots.Links = append(ParentAgent.Pivots.Links[:i], ParentAgent.Pivots.Links[i+1:]...)
				break
			}
		}
	}
	t.rec(VerifCall{Name: "LinkRemove", Agent: ParentAgent, Other: LinkAgent})
}
func (t *VerifTS) LinkAdd(ParentAgent *Agent, LinkAgent *Agent) error {
	t.rec(VerifCall{Name: "LinkAdd", Agent: ParentAgent, Other: LinkAgent})
	return nil
}
func (t *VerifTS) AgentHasDied(a *Agent) bool { return !a.Active }
func (t *VerifTS) AgentAdd(a *Agent) []*Agent {
	t.rec(VerifCall{Name: "AgentAdd", Agent: a})
	return t.Agents.AgentsAppend(a)
}
func (t *VerifTS) PythonModuleCallback(ClientID string, AgentID string, CommandID int, Output map[string]string) {
	t.rec(VerifCall{Name: "PythonModuleCallback", ID: AgentID, Cmd: CommandID, Out: Output})
}
func (t *VerifTS) AgentSendNotify(a *Agent) { t.rec(VerifCall{Name: "AgentSendNotify", Agent: a}) }
func (t *VerifTS) AgentCallbackSize(a *Agent, i int) {
	t.rec(VerifCall{Name: "AgentCallbackSize", Agent: a, Cmd: i})
}
func (t *VerifTS) AgentInstance(AgentID int) *Agent {
	for _, demon := range t.Agents.Agents {
		var NameID, _ = strconv.ParseInt(demon.NameID, 16, 64)
		if AgentID == int(NameID) {
			return demon
		}
	}
	return nil
}
func (t *VerifTS) AgentLastTimeCalled(AgentID string, LastCallback string, Sleep int, Jitter int, KillDate int64, WorkingHours int32) {
	t.rec(VerifCall{Name: "AgentLastTimeCalled", ID: AgentID})
}
func (t *VerifTS) AgentExist(AgentID int) bool {
	t.ExistCalls++
	for _, demon := range t.Agents.Agents {
		var NameID, err = strconv.ParseInt(demon.NameID, 16, 64)
		if err != nil {
			return false
		}
		if AgentID == int(NameID) {
			return true
		}
	}
	return false
}
func (t *VerifTS) AgentConsole(DemonID string, CommandID int, Output map[string]string) {
	t.rec(VerifCall{Name: "AgentConsole", ID: DemonID, Cmd: CommandID, Out: Output})
}
func (t *VerifTS) EventAppend(event packager.Package) []packager.Package {
	t.rec(VerifCall{Name: "EventAppend"})
	return nil
}
func (t *VerifTS) EventBroadcast(ExceptClient string, pk packager.Package) {
	t.rec(VerifCall{Name: "EventBroadcast"})
}
func (t *VerifTS) EventNewDemon(a *Agent) packager.Package {
	t.rec(VerifCall{Name: "EventNewDemon", Agent: a})
	return packager.Package{}
}
func (t *VerifTS) EventAgentMark(AgentID, Mark string) {
	t.rec(VerifCall{Name: "EventAgentMark", ID: AgentID})
}
func (t *VerifTS) EventListenerError(ListenerName string, Error error) {
	t.rec(VerifCall{Name: "EventListenerError", ID: ListenerName})
}
func (t *VerifTS) ListenerAdd(FromUser string, Type int, Config any) packager.Package {
	t.rec(VerifCall{Name: "ListenerAdd"})
	return packager.Package{}
}

type verifServiceAgent struct{ ts *VerifTS }

func (s *verifServiceAgent) SendResponse(AgentInfo any, Header Header) []byte {
	s.ts.ServiceReplies++
	return []byte("svc")
}
func (s *verifServiceAgent) SendAgentBuildRequest(ClientID string, Config map[string]any, Listener map[string]any) {
}

func (t *VerifTS) ServiceAgent(MagicValue int) ServiceAgentInterface {
	if t.ServiceMagic != 0 && MagicValue == t.ServiceMagic {
		return &verifServiceAgent{ts: t}
	}
	return nil
}
func (t *VerifTS) ServiceAgentExist(MagicValue int) bool {
	return t.ServiceMagic != 0 && MagicValue == t.ServiceMagic
}
func (t *VerifTS) GetDotNetPipeTemplate() string { return "mojo.{pid}.{tid}.####################" }
func (t *VerifTS) SendLogs() bool                { return t.Logs }

// ---------------------------------------------------------------------------------
// scripted net.Conn

type VerifConn struct {
	Written [][]byte
	Closed  bool
	FailWrites bool
}

type verifAddr struct{}

func (verifAddr) Network() string { return "tcp" }
func (verifAddr) String() string  { return "127.0.0.1:1" }

func (c *VerifConn) Read(b []byte) (int, error) { return 0, errors.New("verif: EOF") }
func (c *VerifConn) Write(b []byte) (int, error) {
	if c.Closed {
		return 0, errors.New("verif: write on closed conn")
	}
	if c.FailWrites {
		return 0, errors.New("verif: write failed")
	}
	c.Written = append(c.Written, append([]byte(nil), b...))
	return len(b), nil
}
func (c *VerifConn) Close() error                       { c.Closed = true; return nil }
func (c *VerifConn) LocalAddr() net.Addr                { return verifAddr{} }
func (c *VerifConn) RemoteAddr() net.Addr               { return verifAddr{} }
func (c *VerifConn) SetDeadline(t time.Time) error      { return nil }
func (c *VerifConn) SetReadDeadline(t time.Time) error  { return nil }
func (c *VerifConn) SetWriteDeadline(t time.Time) error { return nil }

var VerifDials []string

//verif:stub net.Dial
func verifStubDial(network, address string) (net.Conn, error) {
	VerifDials = append(VerifDials, address)
	if nondet_bool("net.Dial-fails") {
		return nil, errors.New("verif: dial failed")
	}
	return &VerifConn{}, nil
}

// ---------------------------------------------------------------------------------
// state construction helpers

func VerifNewAgent(id string) *Agent {
	a := &Agent{
		NameID: id,
		Active: true,
		Info:   new(AgentInfo),
	}
	a.Info.MagicValue = DEMON_MAGIC_VALUE
	a.Encryption.AESKey = make([]byte, 32)
	a.Encryption.AESIv = make([]byte, 16)
	for i := range a.Encryption.AESKey {
		a.Encryption.AESKey[i] = byte(i + 1)
	}
	return a
}

// VerifDigestAgent folds the observable per-agent state into comparable numbers.
type VerifAgentDigest struct {
	NameID    string
	Active    bool
	Queue     int
	Tasks     int
	Downloads int
	Links     int
	Parent    *Agent
	PortFwds  int
	SocksCli  int
	SocksSvr  int
}

func VerifDigest(a *Agent) VerifAgentDigest {
	return VerifAgentDigest{NameID: a.NameID, Active: a.Active, Queue: len(a.JobQueue), Tasks: len(a.Tasks), Downloads: len(a.Downloads),
		Links: len(a.Pivots.Links), Parent: a.Pivots.Parent, PortFwds: len(a.PortFwds), SocksCli: len(a.SocksCli), SocksSvr: len(a.SocksSvr)}
}

// (*Agent).ToMap converts the struct with github.com/fatih/structs (reflection over the
// whole Agent, with its mutexes and connections), which gosx does not encode: structs.Map is
// modelled by the keys ToMap itself touches, so that the real ToMap - which detaches and
// re-attaches the parent around the conversion - runs. The map only feeds JSON for operators,
// webhooks and the third-party service.
//
//verif:stub github.com/fatih/structs.Map
func verifStubStructsMap(s interface{}) map[string]interface{} {
	m := map[string]interface{}{"Info": map[string]interface{}{}, "Connection": nil, "SessionDir": "", "JobQueue": nil}
	if a, ok := s.(*Agent); ok {
		m["NameID"] = a.NameID
		m["Active"] = a.Active
	}
	return m
}
