package agent

// H_c04_dequeue: GetQueuedJobs returns the longest prefix of the queue whose cumulative
// argument size stays below DEMON_MAX_RESPONSE_LENGTH - but at least one job when the queue
// is non-empty - and leaves exactly the remaining suffix. Sizes of []byte / string
// arguments are symbolic (abstract buffers: only their length exists).
func H_c04_dequeue() {
	n := nondet_choice("n", 5)
	a := VerifNewAgent("11223344")
	var sizes []int
	for i := 0; i < n; i++ {
		job := Job{Command: COMMAND_MEM_FILE, RequestID: uint32(1000 + i)}
		size := 0
		switch nondet_choice("shape", 3) {
		case 1:
			bb := nondet_bytes_abstract("arg-bytes")
			verif_assume(len(bb) <= 0x7fffffff)
			job.Data = append(job.Data, bb)
			size += 4 + len(bb)
		case 2:
			bb := nondet_bytes_abstract("arg-bytes")
			verif_assume(len(bb) <= 0x7fffffff)
			job.Data = append(job.Data, 7, bb, int64(9))
			size += 4 + 4 + len(bb) + 8
		}
		sizes = append(sizes, size)
		a.JobQueue = append(a.JobQueue, job)
	}
	got := a.GetQueuedJobs()
	// reference model
	want := 0
	total := 0
	for i := 0; i < n; i++ {
		total += sizes[i]
		if total >= DEMON_MAX_RESPONSE_LENGTH {
			break
		}
		want++
	}
	if n > 0 {
		if want == 0 {
			want = 1
		}
	}
	verif_assert(len(got) == want, "GetQueuedJobs hands out the longest prefix below the 30 MB limit (a single larger job alone)")
	verif_assert(len(got)+len(a.JobQueue) == n, "returned + remaining == original (nothing lost or duplicated)")
	for i := range got {
		verif_assert(got[i].RequestID == uint32(1000+i), "handed-out jobs keep queue order")
	}
	for i := range a.JobQueue {
		verif_assert(a.JobQueue[i].RequestID == uint32(1000+len(got)+i), "remaining jobs keep queue order")
	}
	verif_witness()
}

// H_c04_history: k enqueue / check-in operations on two agents against a FIFO reference
// model; enqueued tasks carry a byte argument of symbolic size, so where the 30 MB limit
// falls (what is handed out, what stays queued) is part of the history.
func H_c04_history() {
	ts := &VerifTS{}
	ag := []*Agent{VerifNewAgent("11223344"), VerifNewAgent("0badf00d")}
	ts.Agents.Agents = ag
	var refID [2][]uint32
	var refSize [2][]int
	next := uint32(1)
	k := 1 + nondet_choice("steps", verif_bound("history-steps", verifHistorySteps, 6))
	for s := 0; s < k; s++ {
		w := nondet_choice("agent", 2)
		switch nondet_choice("op", 2) {
		case 0: // enqueue
			bb := nondet_bytes_abstract("payload")
			verif_assume(len(bb) <= 0x7fffffff)
			job := Job{Command: COMMAND_MEM_FILE, RequestID: next, Data: []interface{}{int(next), bb}}
			ag[w].AddJobToQueue(job)
			refID[w] = append(refID[w], next)
			refSize[w] = append(refSize[w], 4+4+len(bb))
			next++
		case 1: // check-in asking for jobs
			got := ag[w].GetQueuedJobs()
			want, total := 0, 0
			for i := range refID[w] {
				total += refSize[w][i]
				if total >= DEMON_MAX_RESPONSE_LENGTH {
					break
				}
				want++
			}
			if len(refID[w]) > 0 {
				if want == 0 {
					want = 1
				}
			}
			verif_assert(len(got) == want, "check-in hands out the longest prefix below the limit (at least one task)")
			for i := range got {
				if i < len(refID[w]) {
					verif_assert(got[i].RequestID == refID[w][i], "tasks are handed out once, in the order queued")
				}
			}
			refID[w] = refID[w][want:]
			refSize[w] = refSize[w][want:]
			verif_assert(len(ag[w].JobQueue) == len(refID[w]), "what was not handed out stays queued")
			for i := range ag[w].JobQueue {
				verif_assert(ag[w].JobQueue[i].RequestID == refID[w][i], "remaining tasks keep their order")
			}
		}
	}
	verif_witness()
}

// H_c04_chunks: a file of symbolic size (abstract buffer, up to 3 chunks + 1 byte) pushed to
// the agent is cut into MEM_FILE jobs that all carry one file id and the total size, whose
// ranges tile [0,size) in order; they are queued before anything queued afterwards.
func H_c04_chunks() {
	a := VerifNewAgent("11223344")
	data := nondet_bytes_abstract("file")
	size := len(data)
	verif_assume(size <= 3*DEMON_MAX_RESPONSE_LENGTH+1)
	id := a.UploadMemFileInChunks(data)
	a.AddJobToQueue(Job{Command: COMMAND_FS, RequestID: 77, Data: []interface{}{3, id}})
	off := 0
	n := len(a.JobQueue)
	verif_assert(n >= 1, "the using command is queued")
	for i := 0; i < n-1; i++ {
		job := a.JobQueue[i]
		verif_assert(job.Command == COMMAND_MEM_FILE, "chunk jobs precede the command that uses the file")
		verif_assert(len(job.Data) == 3, "chunk job has (id, total size, data)")
		verif_assert(job.Data[0].(uint32) == id, "all chunks carry the same file id")
		verif_assert(job.Data[1].(uint64) == uint64(size), "all chunks carry the total size")
		chunk := job.Data[2].([]byte)
		verif_assert(cap(data)-cap(chunk) == off, "each chunk starts where the previous one ended")
		verif_assert(len(chunk) <= DEMON_MAX_RESPONSE_LENGTH, "a chunk is at most the 30 MB limit")
		off += len(chunk)
	}
	verif_assert(off == size, "chunks concatenate to exactly the file")
	verif_assert(a.JobQueue[n-1].RequestID == 77, "the using command comes last")
	verif_witness()
}
