package agent

import (
	"Havoc/pkg/logr"
)

// H_c07_download_path: for any file name sent by the agent, DownloadAdd creates files and
// directories inside <loot>/agents/<id>/Download only.
func H_c07_download_path() {
	root := logr.VerifLootRoot()
	a := VerifNewAgent("11223344")
	name := logr.VerifPathName("file", verifDownloadComps)
	// an earlier ordinary download has created the agent's Download directory
	if nondet_bool("earlier-download") {
		if a.DownloadAdd(6, "first.bin", 10) == nil {
			a.DownloadClose(6)
		}
	}
	err := a.DownloadAdd(7, name, 100)
	verif_assert(!logr.VerifCreatedOutside(root, logr.LogrInstance.AgentPath+"/11223344/Download"), "a downloaded file is created inside the agent's Download directory only")
	// chunks that follow the open (accepted or refused) and the close
	effects := logr.VerifFSEffects()
	a.DownloadWrite(7, []byte{nondet_u8("chunk-byte")})
	if err != nil {
		verif_assert(logr.VerifFSEffects() == effects, "a chunk for a download whose open was refused is written nowhere")
		verif_assert(a.DownloadGet(7) == nil, "a refused open registers no download")
	}
	a.DownloadClose(7)
	verif_assert(!logr.VerifCreatedOutside(root, logr.LogrInstance.AgentPath+"/11223344/Download"), "chunks and close never create a file outside the agent's Download directory")
	verif_witness()
}

// H_c07_chunks: for any interleaving of open / write / close over two file ids, a file's
// content is exactly the concatenation of the chunks sent for its id between open and
// close; chunks for unknown or closed ids are written nowhere.
func H_c07_chunks() {
	logr.VerifLootRoot()
	a := VerifNewAgent("11223344")
	names := []string{"one.bin", "two.bin"}
	open := [2]bool{}
	var want [2][]byte
	created := [2]bool{}
	k := 1 + nondet_choice("steps", verif_bound("chunk-steps", verifChunkSteps, 5))
	for s := 0; s < k; s++ {
		id := nondet_choice("file-id", 3) // 2 = an id that is never opened
		switch nondet_choice("op", 3) {
		case 0: // open
			if id < 2 {
				if !open[id] {
					// a second transfer of the same remote file starts the loot file afresh
					if a.DownloadAdd(100+id, names[id], 10) == nil {
						open[id] = true
						created[id] = true
						want[id] = nil
					}
				}
			}
		case 1: // write
			data := nondet_bytes("chunk", 1+nondet_choice("chunk-len", 2))
			a.DownloadWrite(100+id, data)
			if id < 2 {
				if open[id] {
					want[id] = append(want[id], data...)
				}
			}
		case 2: // close
			a.DownloadClose(100 + id)
			if id < 2 {
				open[id] = false
			}
		}
	}
	for id := 0; id < 2; id++ {
		path := logr.LogrInstance.AgentPath + "/11223344/Download/" + names[id]
		got, ok := logr.VerifFileBytes(path)
		if !created[id] {
			verif_assert(!ok, "no file appears for an id that was never opened")
			continue
		}
		verif_assert(ok, "an opened download has its file")
		verif_assert(len(got) == len(want[id]), "file length = total length of the chunks sent between open and close")
		for i := range want[id] {
			if i < len(got) {
				verif_assert(got[i] == want[id][i], "file content = concatenation of the chunks in arrival order")
			}
		}
	}
	verif_witness()
}
