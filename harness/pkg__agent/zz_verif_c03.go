package agent

import (
	"Havoc/pkg/common/parser"
)

// ---- reference encoder mirroring payloads/Demon/src/core/Package.c (big-endian) and the
// metadata layout of Demon.c (DemonMetaData, l.150-270).

func verifPutBE32(b []byte, v uint32) []byte {
	return append(b, byte(v>>24), byte(v>>16), byte(v>>8), byte(v))
}
func verifPutBE64(b []byte, v uint64) []byte {
	return verifPutBE32(verifPutBE32(b, uint32(v>>32)), uint32(v))
}
func verifPutBytes(b []byte, s []byte) []byte {
	return append(verifPutBE32(b, uint32(len(s))), s...)
}

type verifReg struct {
	ID                                         uint32
	Host, User, Domain, IP                     []byte // C strings (ASCII here)
	ProcPathUTF16                              []byte
	PID, TID, PPID, Arch, Elevated             uint32
	Base                                       uint64
	OS                                         [5]uint32
	OSArch, Sleep, Jitter                      uint32
	KillDate                                   uint64
	WorkingHours                               uint32
	Key                                        []byte
	IV                                         []byte
}

func verifNondetReg(strMax int) verifReg {
	var r verifReg
	r.ID = nondet_u32("reg.id")
	r.Host = nondet_bytes("reg.host", nondet_choice("reg.hostlen", strMax+1))
	r.User = nondet_bytes("reg.user", 1)
	r.Domain = nondet_bytes("reg.domain", 1)
	r.IP = nondet_bytes("reg.ip", 1)
	r.ProcPathUTF16 = []byte{'a', 0, '\\', 0, 'b', 0}
	r.PID = nondet_u32("reg.pid")
	r.TID = nondet_u32("reg.tid")
	r.PPID = nondet_u32("reg.ppid")
	r.Arch = 2 // PROCESS_ARCH_X64 (only selects a display string)
	r.Elevated = nondet_u32("reg.elevated")
	r.Base = nondet_u64("reg.base")
	for i := range r.OS {
		r.OS[i] = uint32(10 + i)
	}
	r.OSArch = 9
	r.Sleep = nondet_u32("reg.sleep")
	r.Jitter = nondet_u32("reg.jitter")
	r.KillDate = nondet_u64("reg.killdate")
	r.WorkingHours = nondet_u32("reg.hours")
	// key/IV: first and last byte symbolic, the rest fixed (bytes.Compare forks per position)
	r.Key = make([]byte, 32)
	r.IV = make([]byte, 16)
	for i := range r.Key {
		r.Key[i] = byte(0x40 + i)
	}
	for i := range r.IV {
		r.IV[i] = byte(0x80 + i)
	}
	r.Key[0] = nondet_u8("reg.key0")
	r.Key[31] = nondet_u8("reg.key31")
	r.IV[0] = nondet_u8("reg.iv0")
	r.IV[15] = nondet_u8("reg.iv15")
	return r
}

// verifEncodeReg builds [key 32][iv 16][metadata] as the Demon sends it after the
// 20-byte header (command id and request id already consumed by the caller).
func verifEncodeReg(r verifReg) []byte {
	var b []byte
	b = append(b, r.Key...)
	b = append(b, r.IV...)
	b = verifPutBE32(b, r.ID)
	b = verifPutBytes(b, r.Host)
	b = verifPutBytes(b, r.User)
	b = verifPutBytes(b, r.Domain)
	b = verifPutBytes(b, r.IP)
	b = verifPutBytes(b, r.ProcPathUTF16)
	b = verifPutBE32(b, r.PID)
	b = verifPutBE32(b, r.TID)
	b = verifPutBE32(b, r.PPID)
	b = verifPutBE32(b, r.Arch)
	b = verifPutBE32(b, r.Elevated)
	b = verifPutBE64(b, r.Base)
	for _, v := range r.OS {
		b = verifPutBE32(b, v)
	}
	b = verifPutBE32(b, r.OSArch)
	b = verifPutBE32(b, r.Sleep)
	b = verifPutBE32(b, r.Jitter)
	b = verifPutBE64(b, r.KillDate)
	b = verifPutBE32(b, r.WorkingHours)
	return b
}

func verifNoNul(b []byte) {
	for _, c := range b {
		verif_assume(c != 0)
	}
}

func verifEqStr(got string, want []byte, label string) {
	verif_assert(len(got) == len(want), label+" (length)")
	for i := range want {
		if i < len(got) {
			verif_assert(got[i] == want[i], label)
		}
	}
}

// H_c03_register: a reference-encoded registration yields a session whose id, key, IV and
// metadata are the ones sent; a registration whose inner id differs from the header id
// yields no session.
func H_c03_register() {
	r := verifNondetReg(2)
	verifNoNul(r.Host)
	verifNoNul(r.User)
	verifNoNul(r.Domain)
	verifNoNul(r.IP)
	hdrID := r.ID
	mismatch := nondet_bool("header-id-differs")
	if mismatch {
		hdrID = nondet_u32("header-id")
		verif_assume(hdrID != r.ID)
	}
	body := verifEncodeReg(r)
	s := ParseDemonRegisterRequest(int(hdrID), parser.NewParser(body), "10.9.8.7")
	if mismatch {
		if hdrID != 0 {
			verif_assert(s == nil, "registration whose inner id differs from the header id creates no session")
		}
		verif_witness()
		return
	}
	verif_assert(s != nil, "well-formed registration creates a session")
	if s == nil {
		return
	}
	want := []byte("00000000")
	const hexd = "0123456789abcdef"
	for i := 0; i < 8; i++ {
		want[i] = hexd[(r.ID>>uint(28-4*i))&15]
	}
	verifEqStr(s.NameID, want, "session id is the sender's id as 8 hex digits")
	verifSameBytesA(s.Encryption.AESKey, r.Key, "session key is the key sent")
	verifSameBytesA(s.Encryption.AESIv, r.IV, "session IV is the IV sent")
	verifEqStr(s.Info.Hostname, r.Host, "Hostname recorded as sent")
	verifEqStr(s.Info.Username, r.User, "Username recorded as sent")
	verifEqStr(s.Info.DomainName, r.Domain, "DomainName recorded as sent")
	verifEqStr(s.Info.InternalIP, r.IP, "InternalIP recorded as sent")
	verif_assert(s.Info.ExternalIP == "10.9.8.7", "ExternalIP is the peer address")
	verif_assert(s.Info.ProcessPath == "a\\b", "ProcessPath decoded from UTF-16")
	verif_assert(s.Info.ProcessName == "b", "ProcessName is the last path component")
	verif_assert(s.Info.ProcessPID == int(r.PID), "ProcessPID recorded as sent")
	verif_assert(s.Info.ProcessTID == int(r.TID), "ProcessTID recorded as sent")
	verif_assert(s.Info.ProcessPPID == int(r.PPID), "ProcessPPID recorded as sent")
	verif_assert(s.Info.BaseAddress == int64(r.Base), "BaseAddress recorded as sent")
	verif_assert(s.Info.SleepDelay == int(r.Sleep), "SleepDelay recorded as sent")
	verif_assert(s.Info.SleepJitter == int(r.Jitter), "SleepJitter recorded as sent")
	verif_assert(s.Info.KillDate == int64(r.KillDate), "KillDate recorded as sent")
	verif_assert(s.Info.WorkingHours == int32(r.WorkingHours), "WorkingHours recorded as sent")
	verif_assert((s.Info.Elevated == "true") == (r.Elevated == 1), "Elevated flag recorded as sent")
	verif_assert(s.Active, "new session is active")
	verif_witness()
}

func verifSameBytesA(got, want []byte, label string) {
	verif_assert(len(got) == len(want), label+" (length)")
	for i := range want {
		if i < len(got) {
			verif_assert(got[i] == want[i], label)
		}
	}
}

// H_c03_identity: one arbitrary callback (any command incl. COMMAND_CHECKIN with a
// well-formed body naming another id) leaves every NameID unchanged and pairwise distinct.
func H_c03_identity() {
	mode := nondet_choice("mode", 2)
	ts, A, B, C := verifStateS()
	var cmd uint32
	var body []byte
	if mode == 0 {
		ci := nondet_choice("cmd", len(verifCommands))
		cmd = verifCommands[ci]
		body = nondet_bytes("body", nondet_choice("L", 9))
	} else {
		// COMMAND_CHECKIN with reference-encoded metadata (as sent after a reconnect)
		cmd = COMMAND_CHECKIN
		r := verifNondetReg(1)
		verifNoNul(r.Host)
		verifNoNul(r.User)
		verifNoNul(r.Domain)
		verifNoNul(r.IP)
		body = verifEncodeReg(r)
	}
	rid := nondet_u32("rid")
	A.Tasks = append(A.Tasks, Job{RequestID: rid, Command: cmd})
	A.TaskDispatch(rid, cmd, parser.NewParser(body), ts)
	verif_assert(A.NameID == "11223344", "a callback never changes the session id of the sender")
	verif_assert(B.NameID == "5566aabb", "a callback never changes another session's id")
	verif_assert(C.NameID == "8badf00d", "a callback never changes another session's id")
	verif_assert(len(ts.Agents.Agents) == 3, "a callback to a known agent adds no session")
	verif_witness()
}
