package agent

import (
	"Havoc/pkg/common/crypt"
	"Havoc/pkg/common/parser"
)

// AES-256-CTR as an uninterpreted key stream: position-wise XOR with KS(key, iv, i), the
// stream restarting at position 0 in every call (the CTR contract). Active only in runs
// started with -tags uf_aes; distinct keys give independent streams, so decrypting with
// the wrong agent's key cannot yield the plaintext by construction of the model.
//
//verif:stub-if uf_aes Havoc/pkg/common/crypt.XCryptBytesAES256
func verifStubXCryptUF(data []byte, key []byte, iv []byte) []byte {
	out := make([]byte, len(data))
	args := make([]uint64, 0, 49)
	for _, k := range key {
		args = append(args, uint64(k))
	}
	for _, v := range iv {
		args = append(args, uint64(v))
	}
	args = append(args, 0)
	for i := range data {
		args[len(args)-1] = uint64(i)
		out[i] = data[i] ^ verif_uf8("KS", args...)
	}
	return out
}

// ---- reference decoder: Parser.c (little-endian), Command.c CommandDispatcher l.98-110,
// pivot command l.2555-2590, TransportSmb.c SmbRecv l.64-125.

type verifTask struct {
	Cmd  uint32
	Rid  uint32
	Body []byte // decrypted
	OK   bool
}

func verifLE32(b []byte) uint32 {
	return uint32(b[0]) | uint32(b[1])<<8 | uint32(b[2])<<16 | uint32(b[3])<<24
}

// verifDecodeOneTask reads [cmd][rid][size][enc body] and decrypts with the receiver's key.
func verifDecodeOneTask(pkg []byte, key, iv []byte) verifTask {
	var t verifTask
	if len(pkg) < 12 {
		return t
	}
	t.Cmd = verifLE32(pkg)
	t.Rid = verifLE32(pkg[4:])
	n := int(verifLE32(pkg[8:]))
	if len(pkg) != 12+n {
		return t
	}
	if n > 0 {
		t.Body = crypt.XCryptBytesAES256(pkg[12:], key, iv)
	}
	t.OK = true
	return t
}

func verifChainKey(k int) ([]byte, []byte) {
	key := make([]byte, 32)
	iv := make([]byte, 16)
	for i := range key {
		key[i] = byte(16*k + i + 1)
	}
	for i := range iv {
		iv[i] = byte(0x80 + 16*k + i)
	}
	return key, iv
}

func verifHex8(id uint32) string {
	const hexd = "0123456789abcdef"
	b := make([]byte, 8)
	for i := 0; i < 8; i++ {
		b[i] = hexd[(id>>uint(28-4*i))&15]
	}
	return string(b)
}

// H_c08_chain: a task for an agent behind d SMB hops is delivered to the first hop wrapped
// once per hop: unwrapping hop by hop with each hop's own key yields the next hop's id and
// finally the original task under the target's key.
func H_c08_chain() {
	d := 1 + nondet_choice("depth", verif_bound("chain-depth", verifChainMaxDepth, 4))
	ag := make([]*Agent, d+1)
	ids := make([]uint32, d+1)
	for k := 0; k <= d; k++ {
		// top byte of every id arbitrary (incl. ids >= 0x80000000), low 24 bits fixed and distinct
		ids[k] = uint32(nondet_u8("id-top"))<<24 | uint32(0x10203+k)
		if verif_bound("chain-full-target-id-at-depth-1", 0, 1) == 1 {
			if k == d && d == 1 {
				ids[k] = nondet_u32("target-id")
			}
		}
		verif_assume(ids[k] != 0)
		ag[k] = VerifNewAgent(verifHex8(ids[k]))
		ag[k].Encryption.AESKey, ag[k].Encryption.AESIv = verifChainKey(k)
		if k > 0 {
			ag[k].Pivots.Parent = ag[k-1]
			ag[k-1].Pivots.Links = append(ag[k-1].Pivots.Links, ag[k])
		}
	}
	for k := 0; k <= d; k++ {
		for j := 0; j < k; j++ {
			verif_assume(ids[k] != ids[j])
		}
	}
	target := ag[d]
	cmd := nondet_u32("cmd")
	rid := nondet_u32("rid")
	arg := nondet_bytes("arg", nondet_choice("arglen", 3))
	val := nondet_u32("int-arg")
	job := Job{Command: cmd, RequestID: rid, Data: []interface{}{int(val), arg}}
	target.AddJobToQueue(job)

	verif_assert(target.IsKnownRequestID(&VerifTS{}, rid, COMMAND_SLEEP), "the target session remembers the request id")
	verif_assert(len(ag[0].JobQueue) == 1, "the chain's first hop gets exactly one job")
	for k := 1; k < d; k++ {
		verif_assert(len(ag[k].JobQueue) == 0, "intermediate hops get nothing queued directly")
	}
	if len(ag[0].JobQueue) != 1 {
		return
	}
	// what the first hop receives at check-in, decoded with its own key
	cur := verifDecodeOneTask(BuildPayloadMessage(ag[0].GetQueuedJobs(), ag[0].Encryption.AESKey, ag[0].Encryption.AESIv), ag[0].Encryption.AESKey, ag[0].Encryption.AESIv)
	for k := 1; k <= d; k++ {
		verif_assert(cur.OK, "hop decodes a well-formed task with its own key")
		if !cur.OK {
			return
		}
		verif_assert(cur.Cmd == COMMAND_PIVOT, "every outer layer is a pivot command")
		// Command.c l.2555: I sub-command, I DemonId, B Data
		verif_assert(len(cur.Body) >= 12, "pivot layer carries (sub-command, id, frame)")
		if len(cur.Body) < 12 {
			return
		}
		verif_assert(verifLE32(cur.Body) == DEMON_PIVOT_SMB_COMMAND, "pivot layer sub-command is SMB_COMMAND")
		verif_assert(verifLE32(cur.Body[4:]) == ids[k], "pivot layer names the next hop")
		flen := int(verifLE32(cur.Body[8:]))
		verif_assert(len(cur.Body) == 12+flen, "pivot layer frame length is exact")
		if len(cur.Body) != 12+flen {
			return
		}
		frame := cur.Body[12:]
		// SmbRecv: [id][size][package], id must be the receiver's own id
		verif_assert(len(frame) >= 8, "pipe frame has (id, size)")
		if len(frame) < 8 {
			return
		}
		verif_assert(verifLE32(frame) == ids[k], "pipe frame is addressed to the receiving hop")
		plen := int(verifLE32(frame[4:]))
		verif_assert(len(frame) == 8+plen, "pipe frame size is exact")
		if len(frame) != 8+plen {
			return
		}
		cur = verifDecodeOneTask(frame[8:], ag[k].Encryption.AESKey, ag[k].Encryption.AESIv)
	}
	verif_assert(cur.OK, "the target decodes a well-formed task with its own key")
	if !cur.OK {
		return
	}
	verif_assert(cur.Cmd == cmd, "the innermost task is the original command")
	verif_assert(cur.Rid == rid, "the innermost task carries the original request id")
	verif_assert(len(cur.Body) == 4+4+len(arg), "the innermost body has the original arguments")
	if len(cur.Body) == 4+4+len(arg) {
		verif_assert(verifLE32(cur.Body) == val, "integer argument intact")
		verif_assert(int(verifLE32(cur.Body[4:])) == len(arg), "byte argument length intact")
		for i := range arg {
			verif_assert(cur.Body[8+i] == arg[i], "byte argument intact")
		}
	}
	verif_witness()
}

// H_c08_relay: a frame relayed upward by parent A for pivot child B that carries k = 1..3
// callbacks (one CTR stream under B's key after the first command/request id, as the Demon
// builds it) is attributed to B, decrypted with B's key and gated by B's outstanding tasks:
// every callback with an id outstanding for B completes B's task and talks on B's console;
// ids outstanding only for A have no effect.
func H_c08_relay() {
	ts, A, B, _ := verifStateS()
	A.Encryption.AESKey, A.Encryption.AESIv = verifChainKey(1)
	B.Encryption.AESKey, B.Encryption.AESIv = verifChainKey(2)
	k := 1 + nondet_choice("callbacks", 3)
	rids := make([]uint32, k)
	known := make([]bool, k)
	var plain []byte
	var lastDelay, lastJitter uint32
	anyKnown := false
	for i := 0; i < k; i++ {
		rids[i] = uint32(0x1000 + i)
		known[i] = nondet_bool("outstanding-for-child")
		if known[i] {
			B.Tasks = append(B.Tasks, Job{RequestID: rids[i], Command: COMMAND_SLEEP})
		} else {
			A.Tasks = append(A.Tasks, Job{RequestID: rids[i], Command: COMMAND_SLEEP})
		}
		delay, jitter := nondet_u32("delay"), nondet_u32("jitter")
		if known[i] {
			lastDelay, lastJitter, anyKnown = delay, jitter, true
		}
		body := verifPutBE32(verifPutBE32(nil, delay), jitter)
		if i > 0 {
			plain = verifPutBE32(plain, COMMAND_SLEEP)
			plain = verifPutBE32(plain, rids[i])
		}
		plain = verifPutBytes(plain, body)
	}
	enc := crypt.XCryptBytesAES256(plain, B.Encryption.AESKey, B.Encryption.AESIv)
	inner := verifPutBE32(nil, uint32(12+8+len(enc)))
	inner = verifPutBE32(inner, DEMON_MAGIC_VALUE)
	inner = verifPutBE32(inner, 0x5566aabb) // B
	inner = verifPutBE32(inner, COMMAND_SLEEP)
	inner = verifPutBE32(inner, rids[0])
	inner = append(inner, enc...)
	body := verifPutBytes(verifPutBE32(nil, DEMON_PIVOT_SMB_COMMAND), inner)
	tasksA := len(A.Tasks)

	A.TaskDispatch(77, COMMAND_PIVOT, parser.NewParser(body), ts)

	for i := 0; i < k; i++ {
		if known[i] {
			verif_assert(!B.IsKnownRequestID(ts, rids[i], COMMAND_SLEEP), "a relayed callback for an id outstanding for the child completes the child's task")
		}
	}
	verif_assert(len(A.Tasks) == tasksA, "a relayed callback is never gated by (or completed against) the relaying parent's tasks")
	nKnown := 0
	for i := 0; i < k; i++ {
		if known[i] {
			nKnown++
		}
	}
	consolesB := 0
	for _, c := range ts.Calls {
		if c.Name == "AgentConsole" {
			if c.ID == B.NameID {
				consolesB++
			}
		}
	}
	verif_assert(consolesB == nKnown, "exactly the callbacks outstanding for the child produce output, attributed to the child session")
	if anyKnown {
		// the body of every relayed callback is decrypted exactly once with the child's key
		verif_assert(B.Info.SleepDelay == int(lastDelay), "the child records the value reported by its last relayed callback (delay)")
		verif_assert(B.Info.SleepJitter == int(lastJitter), "the child records the value reported by its last relayed callback (jitter)")
	}
	verif_witness()
}

// H_c08_tomap: describing an agent for an operator, a webhook or a third-party service
// (ToMap detaches the parent while it converts the struct) leaves the agent where it is in
// the pivot tree - whatever state its parent is in - and names that parent; a task issued
// afterwards still travels through the first hop.
func H_c08_tomap() {
	ts, A, B, C := verifStateS()
	depth := 1 + nondet_choice("depth", 2)
	T := B
	if depth == 2 {
		C.Pivots.Parent = B
		B.Pivots.Links = append(B.Pivots.Links, C)
		T = C
	}
	parent := T.Pivots.Parent
	if nondet_bool("parent-reported-inactive") {
		parent.Active = false
		parent.Reason = "Disconnected"
	}
	info := T.ToMap()
	verif_assert(T.Pivots.Parent == parent, "describing an agent leaves its parent in place")
	verif_assert(info["PivotParent"] == parent.NameID, "the description names the agent's parent")
	_, hasQueue := info["JobQueue"]
	verif_assert(!hasQueue, "the description does not carry the job queue")
	msg := map[string]string{}
	job, err := T.TaskPrepare(COMMAND_SLEEP, map[string]any{"TaskID": "0000000a", "Arguments": "5;10"}, &msg, "", ts)
	verif_assume(err == nil)
	verif_assume(job != nil)
	T.AddJobToQueue(*job)
	verif_assert(len(A.JobQueue) == 1, "a task for a pivot agent is queued on the first hop")
	if len(A.JobQueue) == 1 {
		verif_assert(A.JobQueue[0].Command == COMMAND_PIVOT, "the first hop gets the task wrapped as a pivot task")
	}
	verif_witness()
}

// H_c08_memfile: a file shipped ahead of a task (BOF, assembly, shellcode, upload) to an agent
// 1..2 hops below a direct agent travels like the task itself: every chunk job is queued,
// wrapped as a pivot task, on the first hop, ahead of the task that uses the file.
func H_c08_memfile() {
	ts, A, B, C := verifStateS()
	depth := 1 + nondet_choice("depth", 2)
	T := B
	if depth == 2 {
		C.Pivots.Parent = B
		B.Pivots.Links = append(B.Pivots.Links, C)
		T = C
	}
	data := nondet_bytes("file", nondet_choice("file-length", 3))
	T.UploadMemFileInChunks(data)
	verif_assert(len(A.JobQueue) == 1, "the chunk of a memory file for a pivot agent is queued on the first hop")
	msg := map[string]string{}
	job, err := T.TaskPrepare(COMMAND_SLEEP, map[string]any{"TaskID": "0000000a", "Arguments": "5;10"}, &msg, "", ts)
	verif_assume(err == nil)
	verif_assume(job != nil)
	T.AddJobToQueue(*job)
	verif_assert(len(A.JobQueue) == 2, "the task that uses the file follows its chunks on the first hop")
	for _, j := range A.JobQueue {
		verif_assert(j.Command == COMMAND_PIVOT, "everything for a pivot agent reaches the first hop wrapped as a pivot task")
	}
	verif_witness()
}
