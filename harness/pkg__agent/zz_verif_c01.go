package agent

import (
	"Havoc/pkg/common/parser"
	"Havoc/pkg/logr"
)

// every command id that has a case in TaskDispatch (pkg/agent/demons.go), plus one
// arbitrary other id chosen by the solver.
var verifCommands = []uint32{
	COMMAND_GET_JOB, COMMAND_EXIT, COMMAND_KILL_DATE, COMMAND_CHECKIN, DEMON_INFO, COMMAND_SLEEP, COMMAND_JOB, COMMAND_FS,
	COMMAND_PROC_LIST, COMMAND_OUTPUT, BEACON_OUTPUT, COMMAND_INJECT_DLL, COMMAND_SPAWNDLL, COMMAND_INJECT_SHELLCODE,
	COMMAND_PROC, COMMAND_INLINEEXECUTE, COMMAND_ERROR, COMMAND_ASSEMBLY_INLINE_EXECUTE, COMMAND_ASSEMBLY_LIST_VERSIONS,
	COMMAND_PROC_PPIDSPOOF, COMMAND_TOKEN, COMMAND_CONFIG, COMMAND_SCREENSHOT, COMMAND_NET, COMMAND_PIVOT, COMMAND_TRANSFER,
	COMMAND_SOCKET, COMMAND_KERBEROS, COMMAND_MEM_FILE, COMMAND_PACKAGE_DROPPED,
}

func verifIsTableCommand(c uint32) bool {
	for _, k := range verifCommands {
		if k == c {
			return true
		}
	}
	return false
}

// verifStateS builds the reachable state S: direct agent A, pivot child B of A , direct agent C (id with the top bit set); A has an open socks client, a reverse port forward
// and (by choice) an open download and an extra outstanding task.
func verifStateS() (*VerifTS, *Agent, *Agent, *Agent) {
	logr.LogrInstance = &logr.Logr{Path: "/L", AgentPath: "/L/agents", ListenerPath: "/L/listener", ServerPath: "/L"}
	logr.VerifFSReset(false)
	VerifDials = nil
	ts := &VerifTS{}
	A := VerifNewAgent("11223344")
	B := VerifNewAgent("5566aabb")
	C := VerifNewAgent("8badf00d")
	B.Pivots.Parent = A
	A.Pivots.Links = append(A.Pivots.Links, B)
	ts.Agents.Agents = []*Agent{A, B, C}
	A.SocksCli = append(A.SocksCli, &SocksClient{SocketID: 7, Conn: &VerifConn{}, Connected: true, ATYP: 1, IpDomain: []byte{1, 2, 3, 4}, Port: 80})
	A.PortFwds = append(A.PortFwds, &PortFwd{Conn: &VerifConn{}, SocktID: 9, LclAddr: 1, LclPort: 2, FwdAddr: 3, FwdPort: 4, Target: "127.0.0.1:4"})
	return ts, A, B, C
}

// verifDispatchOnce: one TaskDispatch call for command index ci with an arbitrary body of L bytes.
// Obligations: no panic, loops bounded, no mutex left held (C01).
func verifDispatchOnce(ci int, L int) {
	ts, A, _, _ := verifStateS()
	ts.Logs = nondet_bool("sendlogs")
	var cmd uint32
	if ci < len(verifCommands) {
		cmd = verifCommands[ci]
	} else {
		cmd = nondet_u32("cmd-other")
		verif_assume(!verifIsTableCommand(cmd))
	}
	rid := nondet_u32("rid")
	A.Tasks = append(A.Tasks, Job{RequestID: nondet_u32("outstanding-rid"), Command: cmd})
	body := nondet_bytes("body", L)
	A.TaskDispatch(rid, cmd, parser.NewParser(body), ts)
	verif_no_locks_held("TaskDispatch returns with no agent mutex held")
	verif_witness()
}

// H_c01_dispatch: every command id, body of every length 0..verifDispatchMaxL, all byte values.
func H_c01_dispatch() {
	ci := nondet_choice("cmd", len(verifCommands)+1)
	L := nondet_choice("L", verif_bound("dispatch-raw-maxL", verifDispatchMaxL, 11)+1)
	verifDispatchOnce(ci, L)
}

// H_c01_dispatch_deep: every command id, body of verifDispatchDeepL arbitrary bytes; run with
// -conc-limit so that every length/offset field takes its K smallest feasible values.
func H_c01_dispatch_deep() {
	ci := nondet_choice("cmd", len(verifCommands)+1)
	verifDispatchOnce(ci, verifDispatchDeepL)
}

// VerifStateS is the exported form of verifStateS for harnesses in other packages.
func VerifStateS() (*VerifTS, *Agent, *Agent, *Agent) { return verifStateS() }

// VerifQueueShape fills A's queue with jobs produced by the real task-building code
// (never hand-made Job values), so that the pre-state is a reachable one:
//  0 empty; 1 one operator job (sleep) for A; 2 a job for pivot child B, wrapped by the
//  real PivotAddJob into A's queue; 3 an operator-issued "pivot command 12" job for A;
//  4 shapes 1+2 together.
func VerifQueueShape(ts *VerifTS, A, B *Agent, shape int) {
	msg := map[string]string{}
	mk := func(a *Agent, cmd int, info map[string]any) {
		job, err := a.TaskPrepare(cmd, info, &msg, "", ts)
		if err == nil && job != nil {
			a.AddJobToQueue(*job)
		}
	}
	switch shape {
	case 1:
		mk(A, COMMAND_SLEEP, map[string]any{"TaskID": "0000000a", "Arguments": "5;10"})
	case 2:
		mk(B, COMMAND_SLEEP, map[string]any{"TaskID": "0000000b", "Arguments": "5;10"})
	case 3:
		mk(A, COMMAND_PIVOT, map[string]any{"TaskID": "0000000c", "Command": "12"})
	case 4:
		mk(A, COMMAND_SLEEP, map[string]any{"TaskID": "0000000a", "Arguments": "5;10"})
		mk(B, COMMAND_SLEEP, map[string]any{"TaskID": "0000000b", "Arguments": "5;10"})
	}
}

// H_c01_dispatch_lazy: one TaskDispatch call per command id on a lazily generated input:
// every field the handler asks for exists with an arbitrary value (integers fully
// symbolic, length-prefixed fields of 0,1,2,3,4 or 40 arbitrary bytes), and at every
// point where the handler checks for more input the input may also end.
func H_c01_dispatch_lazy() {
	ci := nondet_choice("cmd", len(verifCommands)+1)
	// COMMAND_CHECKIN and COMMAND_KERBEROS branch on most of their ~20 integer fields; their
	// lazy exploration does not finish within the quick budget (CHECKIN is covered with
	// reference-encoded metadata by H_c03_identity, both by the raw-bytes harnesses)
	verif_assume(ci != 3)
	verif_assume(ci != 27)
	ts, A, _, _ := verifStateS()
	ts.Logs = nondet_bool("sendlogs")
	var cmd uint32
	if ci < len(verifCommands) {
		cmd = verifCommands[ci]
	} else {
		cmd = nondet_u32("cmd-other")
		verif_assume(!verifIsTableCommand(cmd))
	}
	rid := nondet_u32("rid")
	A.Tasks = append(A.Tasks, Job{RequestID: rid, Command: cmd})
	// commands with many length-prefixed fields / sub-commands get the small length alphabet
	parser.VerifLazySetLens([]int{0, 1, 2, 40})
	for _, heavy := range []int{3, 4, 7, 15, 20, 23, 27} {
		if ci == heavy {
			parser.VerifLazySetLens([]int{0, 2})
		}
	}
	A.TaskDispatch(rid, cmd, parser.NewParser(parser.VerifLazyBuffer()), ts)
	verif_no_locks_held("TaskDispatch returns with no agent mutex held")
	verif_witness()
}

// H_c01_pivot_nested: pivot callbacks that carry an inner package: SMB connect with an inner
// registration header naming any agent id followed by 0..3 bytes (so the registration is
// truncated), and SMB command relaying an inner callback of 0..8 arbitrary bytes for the
// pivot child B, an unknown agent, or with a non-Demon magic value.
func H_c01_pivot_nested() {
	ts, A, _, _ := verifStateS()
	var body []byte
	id := nondet_u32("inner-id")
	magic := uint32(DEMON_MAGIC_VALUE)
	if nondet_bool("bad-magic") {
		magic = nondet_u32("magic")
	}
	inner := verifPutBE32(nil, nondet_u32("inner-size"))
	inner = verifPutBE32(inner, magic)
	inner = verifPutBE32(inner, id)
	switch nondet_choice("kind", 2) {
	case 0: // connect
		inner = verifPutBE32(inner, DEMON_INIT)
		inner = verifPutBE32(inner, 0)
		inner = append(inner, nondet_bytes("reg", nondet_choice("reglen", 4))...)
		body = verifPutBE32(nil, DEMON_PIVOT_SMB_CONNECT)
		body = verifPutBE32(body, nondet_u32("success"))
		body = verifPutBytes(body, inner)
	case 1: // relayed callback
		inner = verifPutBE32(inner, nondet_u32("inner-cmd"))
		inner = verifPutBE32(inner, nondet_u32("inner-rid"))
		inner = verifPutBytes(inner, nondet_bytes("inner-body", nondet_choice("inner-len", 9)))
		body = verifPutBE32(nil, DEMON_PIVOT_SMB_COMMAND)
		body = verifPutBytes(body, inner)
	}
	A.TaskDispatch(nondet_u32("rid"), COMMAND_PIVOT, parser.NewParser(body), ts)
	verif_no_locks_held("pivot callback returns with no agent mutex held")
	// whatever the callback did to the pivot links, tasking every session afterwards
	// terminates (the parent-chain walk of PivotAddJob is bounded by the engine's loop bound)
	for i, ag := range ts.Agents.Agents {
		ag.AddJobToQueue(Job{Command: COMMAND_SLEEP, RequestID: uint32(900 + i), Data: []interface{}{1, 2}})
	}
	verif_witness()
}
