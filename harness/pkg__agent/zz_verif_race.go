package agent

// Two-thread harnesses (bounded scheduler, at most 2 voluntary context switches, sequentially
// consistent memory). The final state must equal one of the sequential orders.

// H_c04_race: enqueue and check-in (or two enqueues) on one agent at the same time: every
// task is delivered or stays queued exactly once, in an order consistent with some
// sequential execution.
func H_c04_race() {
	a := VerifNewAgent("11223344")
	a.AddJobToQueue(Job{Command: COMMAND_SLEEP, RequestID: 1, Data: []interface{}{1, 1}})
	var got []Job
	pair := nondet_choice("pair", 2)
	switch pair {
	case 0:
		verif_par(func() { a.AddJobToQueue(Job{Command: COMMAND_SLEEP, RequestID: 2, Data: []interface{}{2, 2}}) },
			func() { got = a.GetQueuedJobs() })
		verif_assert(len(got)+len(a.JobQueue) == 2, "concurrent enqueue and check-in: every task is handed out or still queued, exactly once")
		seen1, seen2 := 0, 0
		for _, j := range got {
			if j.RequestID == 1 {
				seen1++
			}
			if j.RequestID == 2 {
				seen2++
			}
		}
		for _, j := range a.JobQueue {
			if j.RequestID == 1 {
				seen1++
			}
			if j.RequestID == 2 {
				seen2++
			}
		}
		verif_assert(seen1 == 1, "the task queued before the race is delivered exactly once")
		verif_assert(seen2 == 1, "the task queued during the race is neither lost nor duplicated")
	case 1:
		verif_par(func() { a.AddJobToQueue(Job{Command: COMMAND_SLEEP, RequestID: 2, Data: []interface{}{2, 2}}) },
			func() { a.AddJobToQueue(Job{Command: COMMAND_SLEEP, RequestID: 3, Data: []interface{}{3, 3}}) })
		verif_assert(len(a.JobQueue) == 3, "two concurrent enqueues: both tasks are queued")
		verif_assert(len(a.Tasks) == 3, "two concurrent enqueues: both request ids are outstanding")
	}
	verif_witness()
}

// H_c15_tables_race: the mutex-guarded socket tables under two concurrent users: adding two
// clients, adding and closing, looking up and closing. Ids stay unique, nothing is lost,
// lookups agree with a sequential order, no mutex stays held.
func H_c15_tables_race() {
	a := VerifNewAgent("11223344")
	c1, c2, c3 := &VerifConn{}, &VerifConn{}, &VerifConn{}
	a.SocksClientAdd(7, c1, 1, []byte{1, 2, 3, 4}, 80)
	var found *SocksClient
	closed := false
	switch nondet_choice("pair", 3) {
	case 0:
		verif_par(func() { a.SocksClientAdd(8, c2, 1, []byte{1, 2, 3, 4}, 80) }, func() { a.SocksClientAdd(9, c3, 1, []byte{1, 2, 3, 4}, 80) })
		verif_assert(len(a.SocksCli) == 3, "two concurrent registrations: both sockets are in the table")
		verif_assert(a.SocksClientGet(8) != nil, "concurrently registered socket 8 can be looked up")
		verif_assert(a.SocksClientGet(9) != nil, "concurrently registered socket 9 can be looked up")
	case 1:
		verif_par(func() { a.SocksClientAdd(8, c2, 1, []byte{1, 2, 3, 4}, 80) }, func() { closed = a.SocksClientClose(7) })
		verif_assert(closed, "closing an existing socket succeeds whatever else happens")
		verif_assert(len(a.SocksCli) == 1, "concurrent add and close: exactly the new socket remains")
		verif_assert(a.SocksClientGet(8) != nil, "the socket added during the close is in the table")
		verif_assert(a.SocksClientGet(7) == nil, "the closed socket is gone")
	case 2:
		verif_par(func() { found = a.SocksClientGet(7) }, func() { closed = a.SocksClientClose(7) })
		verif_assert(closed, "close succeeds")
		verif_assert(a.SocksClientGet(7) == nil, "after the race the closed socket is gone")
		_ = found
	}
	verif_no_locks_held("socket table mutex released by both threads")
	verif_witness()
}
