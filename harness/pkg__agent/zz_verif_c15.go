package agent

import (
	"Havoc/pkg/common/parser"
	"Havoc/pkg/socks"
)

func verifSocksProxy() (*VerifTS, *Agent, func(s *socks.Socks, c *socks.VerifStreamConn)) {
	ts, A, _, _ := verifStateS()
	A.SocksCli = nil
	msg := map[string]string{}
	_, err := A.TaskPrepare(COMMAND_SOCKET, map[string]any{"TaskID": "0000000d", "Command": "socks add", "Params": "1080"}, &msg, "", ts)
	verif_assume(err == nil)
	verif_assume(len(A.SocksSvr) == 1)
	h := A.SocksSvr[0].Server.VerifHandler()
	return ts, A, func(s *socks.Socks, c *socks.VerifStreamConn) { h(s, c) }
}

// H_c15_proxy: the proxy's answers to a client that sends a greeting of 0..4 bytes and then a
// request of 0..10 bytes (each arbitrarily segmented): no reply for a bad version, exactly
// 05 FF when no-auth is not offered, 05 00 otherwise; only CONNECT is accepted; the connect
// task carries exactly the address type, address and port of the request.
func H_c15_proxy() {
	_, A, handle := verifSocksProxy()
	g := nondet_bytes("greeting", nondet_choice("greeting-len", 5))
	r := nondet_bytes("request", nondet_choice("request-len", verif_bound("socks-proxy-request-max", verifC15ProxyReqMax, 12)+1))
	// segmentation is covered by H_c15_greeting / H_c15_request; here each phase is one segment
	c := &socks.VerifStreamConn{Phases: [][]byte{g, r}, NoSplit: true}
	before := len(A.JobQueue)
	handle(A.SocksSvr[0].Server, c)

	greetOK := false
	hasNoAuth := false
	if len(g) >= 2 {
		if g[0] == 5 {
			if int(g[1]) <= len(g)-2 {
				greetOK = true
				for i := 0; i < int(g[1]); i++ {
					if g[2+i] == 0 {
						hasNoAuth = true
					}
				}
			}
		}
	}
	if !greetOK {
		verif_assert(len(c.Written) == 0, "a malformed or truncated greeting gets no reply")
		verif_assert(len(A.JobQueue) == before, "a malformed greeting queues nothing")
		verif_witness()
		return
	}
	verif_assert(len(c.Written) >= 1, "a well-formed greeting gets a method selection")
	if len(c.Written) == 0 {
		return
	}
	sel := c.Written[0]
	verif_assert(len(sel) == 2, "method selection is two octets")
	if len(sel) != 2 {
		return
	}
	verif_assert(sel[0] == 5, "method selection VER=5")
	if !hasNoAuth {
		verif_assert(sel[1] == 0xff, "without a no-auth offer the proxy refuses with FF")
		verif_assert(len(c.Written) == 1, "nothing follows a refusal")
		verif_assert(len(A.JobQueue) == before, "a refused client queues nothing")
		verif_witness()
		return
	}
	verif_assert(sel[1] == 0, "no-auth is selected when offered")

	// request (RFC 1928 s.4)
	reqOK := false
	var atyp byte
	var addr []byte
	var port uint16
	if len(r) >= 4 {
		if r[0] == 5 {
			if r[2] == 0 {
				pos, n, known := 4, 0, true
				switch r[3] {
				case 1:
					n = 4
				case 4:
					n = 16
				case 3:
					if len(r) >= 5 {
						n = int(r[4])
						pos = 5
					} else {
						known = false
					}
				default:
					known = false
				}
				if known {
					if len(r) >= pos+n+2 {
						reqOK = true
						atyp = r[3]
						addr = r[pos : pos+n]
						port = uint16(r[pos+n])<<8 | uint16(r[pos+n+1])
					}
				}
			}
		}
	}
	if !reqOK {
		verif_assert(len(A.JobQueue) == before, "a malformed or truncated request queues nothing")
		verif_witness()
		return
	}
	if r[1] != 1 {
		verif_assert(len(A.JobQueue) == before, "only CONNECT is accepted")
		verif_assert(len(c.Written) == 2, "a non-CONNECT request gets one reply")
		if len(c.Written) == 2 {
			rep := c.Written[1]
			verif_assert(len(rep) == 10, "command-not-supported reply is a well-formed 10 octet reply")
			if len(rep) == 10 {
				verif_assert(rep[0] == 5, "reply VER")
				verif_assert(rep[1] == 7, "reply REP = command not supported")
				verif_assert(rep[3] == 1, "reply ATYP")
			}
		}
		verif_witness()
		return
	}
	verif_assert(len(A.JobQueue) == before+1, "a CONNECT request queues exactly one connect task")
	if len(A.JobQueue) == before+1 {
		job := A.JobQueue[before]
		verif_assert(job.Command == COMMAND_SOCKET, "connect task command")
		verif_assert(len(job.Data) == 5, "connect task has (sub-command, socket id, atyp, address, port)")
		if len(job.Data) == 5 {
			verif_assert(job.Data[0].(int) == SOCKET_COMMAND_CONNECT, "connect task sub-command")
			verif_assert(job.Data[2].(byte) == atyp, "connect task reports the exact address type")
			got := job.Data[3].([]byte)
			verif_assert(len(got) == len(addr), "connect task reports the exact address length")
			for i := range addr {
				if i < len(got) {
					verif_assert(got[i] == addr[i], "connect task reports the exact address")
				}
			}
			verif_assert(job.Data[4].(uint16) == port, "connect task reports the exact port")
			verif_assert(len(A.SocksCli) == 1, "the client is registered under the task's socket id")
			if len(A.SocksCli) == 1 {
				verif_assert(A.SocksCli[0].SocketID == job.Data[1].(int32), "socket id of table entry and task agree")
			}
		}
	}
	verif_no_locks_held("proxy handler leaves no table mutex held")
	verif_witness()
}

// H_c15_relay: data the agent returns for socket id s is written, unmodified, to the client
// registered under s and to no other; connect success/failure is echoed with the request's
// address; a close removes the socket from the table.
func H_c15_relay() {
	ts, A, _, _ := verifStateS()
	c1, c2 := &VerifConn{}, &VerifConn{}
	A.SocksCli = []*SocksClient{
		{SocketID: 7, Conn: c1, Connected: true, ATYP: 1, IpDomain: []byte{1, 2, 3, 4}, Port: 80},
		{SocketID: 9, Conn: c2, Connected: true, ATYP: 3, IpDomain: []byte("ab"), Port: 443},
	}
	sid := nondet_u32("socket-id")
	var body []byte
	data := nondet_bytes("data", nondet_choice("data-len", 4))
	op := nondet_choice("op", 3)
	switch op {
	case 0: // READ: id, type, success, data
		body = append(verifPutBE32(nil, SOCKET_COMMAND_READ), verifPutBE32(nil, sid)...)
		body = verifPutBE32(body, SOCKET_TYPE_REVERSE_PROXY)
		body = verifPutBE32(body, 1)
		body = verifPutBytes(body, data)
	case 1: // CLOSE: id, type
		body = append(verifPutBE32(nil, SOCKET_COMMAND_CLOSE), verifPutBE32(nil, sid)...)
		body = verifPutBE32(body, SOCKET_TYPE_REVERSE_PROXY)
	case 2: // CONNECT: success, id, error
		body = append(verifPutBE32(nil, SOCKET_COMMAND_CONNECT), verifPutBE32(nil, nondet_u32("success"))...)
		body = verifPutBE32(body, sid)
		body = verifPutBE32(body, nondet_u32("error-code"))
	}
	A.TaskDispatch(1, COMMAND_SOCKET, parser.NewParser(body), ts)
	conns := []*VerifConn{c1, c2}
	ids := []uint32{7, 9}
	for k := 0; k < 2; k++ {
		mine := sid == ids[k]
		switch op {
		case 0:
			if mine {
				verif_assert(len(conns[k].Written) == 1, "data for socket s is written once to the client registered under s")
				if len(conns[k].Written) == 1 {
					verifSameBytesA(conns[k].Written[0], data, "relayed bytes are unmodified")
				}
			} else {
				verif_assert(len(conns[k].Written) == 0, "data for socket s reaches no other client")
			}
		case 1:
			if mine {
				verif_assert(conns[k].Closed, "closing s closes the client's connection")
				verif_assert(A.SocksClientGet(int(ids[k])) == nil, "closing s removes it from the table")
			} else {
				verif_assert(!conns[k].Closed, "closing s leaves other clients alone")
				verif_assert(A.SocksClientGet(int(ids[k])) != nil, "closing s keeps other sockets in the table")
			}
		case 2:
			if !mine {
				verif_assert(len(conns[k].Written) == 0, "a connect result for s reaches no other client")
			} else {
				verif_assert(len(conns[k].Written) == 1, "a connect result is echoed to the client as one reply")
				if len(conns[k].Written) == 1 {
					rep := conns[k].Written[0]
					verif_assert(len(rep) >= 4, "reply header")
					if len(rep) >= 4 {
						verif_assert(rep[0] == 5, "reply VER")
						verif_assert(rep[3] == A_atyp(k), "reply echoes the request's address type")
					}
				}
			}
		}
	}
	verif_no_locks_held("socket callback leaves no table mutex held")
	verif_witness()
}

// H_c15_reader: once connected, what the client writes reaches the agent as socket-write
// tasks with the client's socket id, unmodified and in order (the reader goroutine of the
// "socks add" handler is run to completion: 1..3 segments of 1..3 arbitrary bytes, then the
// client resets the connection): every queued WRITE task keeps its own bytes while later
// segments are read, the reset queues one CLOSE task and removes the socket.
func H_c15_reader() {
	_, A, handle := verifSocksProxy()
	c := &socks.VerifStreamConn{Phases: [][]byte{{5, 1, 0}, {5, 1, 0, 1, 10, 0, 0, 1, 0, 80}}, NoSplit: true}
	before := len(A.JobQueue)
	verif_drop_goroutines() // the listener goroutine of "socks add" (real TCP) is outside the model
	handle(A.SocksSvr[0].Server, c)
	verif_assume(len(A.SocksCli) == 1)
	verif_assume(len(A.JobQueue) == before+1)
	sid := A.SocksCli[0].SocketID
	A.SocksCli[0].Connected = true // the agent reported a successful connect
	nseg := 1 + nondet_choice("segments", 3)
	var segs [][]byte
	for k := 0; k < nseg; k++ {
		segs = append(segs, nondet_bytes("segment", 1+nondet_choice("segment-len", 3)))
	}
	c.Phases = append(c.Phases, segs...)
	c.Stream = true
	n := verif_go_count()
	verif_assert(n == 1 || n == -1, "one reader goroutine per connected client")
	verif_run_goroutines()
	verif_assert(len(A.JobQueue) == before+1+nseg+1, "one write task per segment, then one close task")
	if len(A.JobQueue) == before+1+nseg+1 {
		for k := 0; k < nseg; k++ {
			job := A.JobQueue[before+1+k]
			verif_assert(job.Command == COMMAND_SOCKET, "write task command")
			verif_assert(len(job.Data) == 3, "write task has (sub-command, socket id, data)")
			if len(job.Data) == 3 {
				verif_assert(job.Data[0].(int) == SOCKET_COMMAND_WRITE, "write task sub-command")
				verif_assert(job.Data[1].(int32) == sid, "write task carries the client's socket id")
				verifSameBytesA(job.Data[2].([]byte), segs[k], "client bytes reach the agent unmodified and in order")
			}
		}
		last := A.JobQueue[before+1+nseg]
		verif_assert(len(last.Data) == 2, "close task has (sub-command, socket id)")
		if len(last.Data) == 2 {
			verif_assert(last.Data[0].(int) == SOCKET_COMMAND_CLOSE, "a failed client connection queues a close task")
			verif_assert(last.Data[1].(int32) == sid, "close task carries the client's socket id")
		}
	}
	verif_assert(A.SocksClientGet(int(sid)) == nil, "a failed client connection removes the socket from the table")
	verif_assert(c.Closed, "a failed client connection is closed")
	verif_no_locks_held("reader goroutine leaves no table mutex held")
	verif_witness()
}

func A_atyp(k int) byte {
	if k == 0 {
		return 1
	}
	return 3
}

const verifC15ProxyReqMax = 10

// H_c15_socks_admin: operator commands socks list / kill / clear on an agent with 0..3
// proxies, each with 0..2 connected clients: no panic, no table mutex left held, exactly the
// addressed proxies disappear together with their client sockets, the others stay.
func H_c15_socks_admin() {
	ts, A, _, _ := verifStateS()
	A.SocksCli = nil
	n := nondet_choice("proxies", 4)
	ports := []string{"1080", "1081", "1082"}
	var conns [][]*VerifConn
	nextID := int32(100)
	for i := 0; i < n; i++ {
		s := socks.NewSocks("0.0.0.0:" + ports[i])
		k := nondet_choice("clients", 3)
		var cs []*VerifConn
		for j := 0; j < k; j++ {
			c := &VerifConn{}
			cs = append(cs, c)
			s.Clients = append(s.Clients, nextID)
			A.SocksClientAdd(nextID, c, 1, []byte{1, 2, 3, 4}, 80)
			nextID++
		}
		conns = append(conns, cs)
		A.SocksSvr = append(A.SocksSvr, &SocksServer{Server: s, Addr: ports[i]})
	}
	op := nondet_choice("op", 3)
	target := nondet_choice("target", 4) // index into ports, 3 = unknown port
	param := "9999"
	if target < 3 {
		param = ports[target]
	}
	cmds := []string{"socks list", "socks kill", "socks clear"}
	msg := map[string]string{}
	A.TaskPrepare(COMMAND_SOCKET, map[string]any{"TaskID": "0000000e", "Command": cmds[op], "Params": param}, &msg, "", ts)
	verif_no_locks_held("socks admin command leaves no table mutex held")
	for i := 0; i < n; i++ {
		gone := false
		if op == 2 {
			gone = true
		}
		if op == 1 {
			if target == i {
				gone = true
			}
		}
		present := false
		for _, sv := range A.SocksSvr {
			if sv.Addr == ports[i] {
				present = true
			}
		}
		verif_assert(present == !gone, "exactly the addressed proxies are removed from the proxy table")
		for _, c := range conns[i] {
			verif_assert(c.Closed == gone, "the client sockets of a removed proxy are closed, all others stay open")
		}
	}
	want := 0
	for i := 0; i < n; i++ {
		keep := true
		if op == 2 {
			keep = false
		}
		if op == 1 {
			if target == i {
				keep = false
			}
		}
		if keep {
			want += len(conns[i])
		}
	}
	verif_assert(len(A.SocksCli) == want, "closing a proxy removes its sockets from the socket table and no others")
	verif_witness()
}

// H_c15_portfwd: reverse port-forward sockets: an OPEN callback registers the socket under
// its id (once); data the agent returns for client socket s reaches the forward target of s
// unmodified (the target connection is opened on first data, to the address announced at
// OPEN) and no other connection; data for an unknown id reaches nobody; a REMOVE callback
// closes and removes exactly that socket. No table mutex stays held.
func H_c15_portfwd() {
	ts, A, _, _ := verifStateS()
	c1 := &VerifConn{}
	A.PortFwds = []*PortFwd{
		{SocktID: 7, Conn: c1, Target: "10.0.0.7:70"},
		{SocktID: 9, Conn: nil, Target: "10.0.0.9:90"},
	}
	VerifDials = nil
	sid := nondet_u32("socket-id")
	op := nondet_choice("op", 3)
	data := nondet_bytes("data", nondet_choice("data-len", 4))
	var body []byte
	switch op {
	case 0: // OPEN: id, local addr, local port, forward addr, forward port
		body = append(verifPutBE32(nil, SOCKET_COMMAND_OPEN), verifPutBE32(nil, sid)...)
		body = verifPutBE32(body, 0x0100007f)
		body = verifPutBE32(body, 4444)
		body = verifPutBE32(body, 0x0b00000a)
		body = verifPutBE32(body, 8080)
	case 1: // READ for a client socket: id, type, success, data
		body = append(verifPutBE32(nil, SOCKET_COMMAND_READ), verifPutBE32(nil, sid)...)
		body = verifPutBE32(body, SOCKET_TYPE_CLIENT)
		body = verifPutBE32(body, 1)
		body = verifPutBytes(body, data)
	case 2: // REMOVE: id, type, local addr, local port, forward addr, forward port
		body = append(verifPutBE32(nil, SOCKET_COMMAND_RPORTFWD_REMOVE), verifPutBE32(nil, sid)...)
		body = verifPutBE32(body, SOCKET_TYPE_CLIENT)
		body = verifPutBE32(body, 0x0100007f)
		body = verifPutBE32(body, 4444)
		body = verifPutBE32(body, 0x0b00000a)
		body = verifPutBE32(body, 8080)
	}
	verif_drop_goroutines()
	A.TaskDispatch(1, COMMAND_SOCKET, parser.NewParser(body), ts)

	find := func(id int) *PortFwd {
		var hit *PortFwd
		n := 0
		for _, p := range A.PortFwds {
			if p.SocktID == id {
				hit = p
				n++
			}
		}
		verif_assert(n <= 1, "a socket id is in the forward table at most once")
		return hit
	}
	p7, p9 := find(7), find(9)
	switch op {
	case 0:
		if sid != 7 && sid != 9 {
			verif_assert(len(A.PortFwds) == 3, "an OPEN for a new id registers one socket")
			if n := find(int(sid)); n != nil {
				verif_assert(n.Conn == nil, "the target connection is not opened before there is data")
				verif_assert(n.FwdPort == 8080, "the socket remembers the forward port announced at OPEN")
			} else {
				verif_fail("the opened socket is registered under its id")
			}
		} else {
			verif_assert(len(A.PortFwds) == 2, "an OPEN for a known id changes nothing")
		}
		verif_assert(len(c1.Written) == 0, "an OPEN writes nothing to any target")
	case 1:
		switch sid {
		case 7:
			verif_assert(len(c1.Written) == 1, "data for an open forward is written once to its target")
			if len(c1.Written) == 1 {
				verifSameBytesA(c1.Written[0], data, "forwarded bytes are unmodified")
			}
			verif_assert(len(VerifDials) == 0, "an open forward is not dialled again")
		case 9:
			verif_assert(len(c1.Written) == 0, "data for socket s reaches no other forward")
			verif_assert(len(VerifDials) == 1, "the target of a forward is dialled on first data")
			if len(VerifDials) == 1 {
				verif_assert(VerifDials[0] == "10.0.0.9:90", "the connection goes to the target announced for this socket")
			}
			if p9 != nil {
				if p9.Conn != nil {
					vc := p9.Conn.(*VerifConn)
					verif_assert(len(vc.Written) == 1, "the first data is written once to the freshly opened target")
					if len(vc.Written) == 1 {
						verifSameBytesA(vc.Written[0], data, "forwarded bytes are unmodified")
					}
					verif_assert(verif_go_count() == 1 || verif_go_count() == -1, "one reader goroutine per opened forward")
				}
			}
		default:
			verif_assert(len(c1.Written) == 0, "data for an unknown socket id reaches no target")
			verif_assert(len(VerifDials) == 0, "data for an unknown socket id opens no connection")
		}
		verif_assert(len(A.PortFwds) == 2, "data does not add or remove sockets")
	case 2:
		switch sid {
		case 7:
			verif_assert(p7 == nil, "a removed socket leaves the forward table")
			verif_assert(c1.Closed, "removing a socket closes its target connection")
			verif_assert(p9 != nil, "removing s keeps the other sockets")
		case 9:
			verif_assert(p9 == nil, "a removed socket leaves the forward table")
			verif_assert(!c1.Closed, "removing s leaves other connections alone")
			verif_assert(p7 != nil, "removing s keeps the other sockets")
		default:
			verif_assert(len(A.PortFwds) == 2, "removing an unknown id changes nothing")
			verif_assert(!c1.Closed, "removing an unknown id closes nothing")
		}
	}
	verif_no_locks_held("port-forward callback leaves no table mutex held")
	verif_witness()
}
