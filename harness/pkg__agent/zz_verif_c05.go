package agent

import (
	"Havoc/pkg/common/parser"
	"Havoc/pkg/logr"
)

const verifGateMaxL = 8

// H_c05_gate: a callback whose request id is not outstanding for the receiving agent has
// no effect at all, unless it is one of the relay kinds (socket, pivot) or beacon output
// with log forwarding switched on. Ids outstanding for another agent do not count.
func H_c05_gate() {
	ci := nondet_choice("cmd", len(verifCommands)+1)
	L := nondet_choice("L", verif_bound("gate-maxL", verifGateMaxL, 11)+1)
	ts, A, B, C := verifStateS()
	ts.Logs = nondet_bool("sendlogs")
	var cmd uint32
	if ci < len(verifCommands) {
		cmd = verifCommands[ci]
	} else {
		cmd = nondet_u32("cmd-other")
		verif_assume(!verifIsTableCommand(cmd))
	}
	rid := nondet_u32("rid")
	nA := nondet_choice("nA", 3)
	for i := 0; i < nA; i++ {
		A.Tasks = append(A.Tasks, Job{RequestID: nondet_u32("a-task"), Command: cmd})
	}
	// ids issued to other agents (B gets the very id of the callback)
	B.Tasks = append(B.Tasks, Job{RequestID: rid, Command: cmd})
	C.Tasks = append(C.Tasks, Job{RequestID: nondet_u32("c-task"), Command: cmd})
	outstanding := false
	for i := range A.Tasks {
		if A.Tasks[i].RequestID == rid {
			outstanding = true
		}
	}
	relay := cmd == COMMAND_SOCKET || cmd == COMMAND_PIVOT
	if ts.Logs {
		if cmd == BEACON_OUTPUT {
			relay = true
		}
	}
	dA, dB, dC := VerifDigest(A), VerifDigest(B), VerifDigest(C)
	body := nondet_bytes("body", L)
	A.TaskDispatch(rid, cmd, parser.NewParser(body), ts)
	if !outstanding {
		if !relay {
			verif_assert(len(ts.Calls) == 0, "unsolicited callback: no call on the teamserver interface (console, died, update, link, notify)")
			verif_assert(logr.VerifFSEffects() == 0, "unsolicited callback: no loot written")
			verif_assert(len(VerifDials) == 0, "unsolicited callback: no outbound connection")
			verif_assert(VerifDigest(A) == dA, "unsolicited callback: receiving session unchanged")
			verif_assert(VerifDigest(B) == dB, "unsolicited callback: other session (same id outstanding there) unchanged")
			verif_assert(VerifDigest(C) == dC, "unsolicited callback: other session unchanged")
		}
	}
	verif_witness()
}

// H_c05_completed: RequestCompleted(r) removes exactly the first task with id r and keeps
// the order of the others; afterwards r is accepted only if it was outstanding twice.
func H_c05_completed() {
	n := nondet_choice("n", 5)
	a := VerifNewAgent("11223344")
	ts := &VerifTS{}
	var ids []uint32
	for i := 0; i < n; i++ {
		id := nondet_u32("task")
		ids = append(ids, id)
		a.AddRequest(Job{RequestID: id, Command: uint32(100 + i)})
	}
	r := nondet_u32("r")
	a.RequestCompleted(r)
	// reference
	var want []int
	removed := false
	for i, id := range ids {
		if !removed {
			if id == r {
				removed = true
				continue
			}
		}
		want = append(want, i)
	}
	verif_assert(len(a.Tasks) == len(want), "RequestCompleted removes at most the one matching task")
	for k, i := range want {
		if k < len(a.Tasks) {
			verif_assert(a.Tasks[k].RequestID == ids[i], "RequestCompleted keeps the other ids in order")
			verif_assert(a.Tasks[k].Command == uint32(100+i), "RequestCompleted keeps the other tasks in order")
		}
	}
	still := false
	for _, i := range want {
		if ids[i] == r {
			still = true
		}
	}
	verif_assert(a.IsKnownRequestID(ts, r, COMMAND_SLEEP) == still, "a completed id is no longer accepted")
	verif_witness()
}

// commands whose Demon handler transmits exactly one package per task (Command.c; see
// DESIGN.md appendix A): after any callback that produced an effect, the id is forgotten.
var verifSingleShot = []uint32{COMMAND_SLEEP, COMMAND_EXIT, COMMAND_KILL_DATE, COMMAND_PROC_PPIDSPOOF, COMMAND_MEM_FILE,
	COMMAND_INJECT_SHELLCODE, COMMAND_INJECT_DLL, COMMAND_SCREENSHOT, COMMAND_CONFIG, COMMAND_ASSEMBLY_LIST_VERSIONS}

// H_c05_final: for single-package commands, a callback that had any effect completes the task.
func H_c05_final() {
	ci := nondet_choice("cmd", len(verifSingleShot))
	L := nondet_choice("L", 13)
	ts, A, _, _ := verifStateS()
	cmd := verifSingleShot[ci]
	rid := nondet_u32("rid")
	A.Tasks = append(A.Tasks, Job{RequestID: rid, Command: cmd})
	body := nondet_bytes("body", L)
	A.TaskDispatch(rid, cmd, parser.NewParser(body), ts)
	if ts.Effects() > 0 {
		verif_assert(!A.IsKnownRequestID(ts, rid, cmd), "after the (single) callback of the task was acted upon, its request id is no longer accepted")
	}
	// commands whose callback is complete once its fixed fields are present (Command.c: one
	// package with these fields): the id is forgotten whether or not anything is printed
	minLen := -1
	switch cmd {
	case COMMAND_SLEEP, COMMAND_MEM_FILE:
		minLen = 8
	case COMMAND_EXIT, COMMAND_PROC_PPIDSPOOF, COMMAND_INJECT_SHELLCODE, COMMAND_INJECT_DLL:
		minLen = 4
	case COMMAND_KILL_DATE, COMMAND_ASSEMBLY_LIST_VERSIONS:
		minLen = 0
	}
	if minLen >= 0 {
		if L >= minLen {
			verif_assert(!A.IsKnownRequestID(ts, rid, cmd), "a complete final callback retires exactly its own request id")
		}
	}
	verif_witness()
}

// H_c05_cross: a request id issued to a pivot child (and wrapped for its parent by the real
// task-building code) is outstanding for the child only: the same id in a callback of the
// parent, with an ordinary command, has no effect.
func H_c05_cross() {
	ci := nondet_choice("cmd", len(verifCommands))
	L := nondet_choice("L", 5)
	ts, A, B, _ := verifStateS()
	cmd := verifCommands[ci]
	verif_assume(cmd != COMMAND_SOCKET)
	verif_assume(cmd != COMMAND_PIVOT)
	rid := nondet_u32("rid")
	B.AddJobToQueue(Job{Command: COMMAND_SLEEP, RequestID: rid, Data: []interface{}{5, 10}})
	verif_assert(B.IsKnownRequestID(ts, rid, COMMAND_SLEEP), "the id is outstanding for the child it was issued to")
	dA := VerifDigest(A)
	calls := len(ts.Calls)
	body := nondet_bytes("body", L)
	A.TaskDispatch(rid, cmd, parser.NewParser(body), ts)
	verif_assert(len(ts.Calls) == calls, "an id issued to another agent (the pivot child) is not accepted from the parent: no teamserver call")
	verif_assert(VerifDigest(A) == dA, "an id issued to another agent is not accepted from the parent: session unchanged")
	verif_witness()
}

// H_c05_download_close: the close message of a download (COMMAND_FS / download, mode 2) is the
// final callback of the download task: once a well-formed close has been processed the
// request id is no longer accepted - whether the download it names is registered, is another
// one, or none is registered at all (the open was refused or never seen).
func H_c05_download_close() {
	logr.VerifLootRoot()
	ts, A, _, _ := verifStateS()
	rid := nondet_u32("rid")
	A.Tasks = append(A.Tasks, Job{RequestID: rid, Command: COMMAND_FS})
	state := nondet_choice("downloads", 3) // 0 none registered, 1 the named one, 2 another one
	switch state {
	case 1:
		verif_assume(A.DownloadAdd(0x51, "a.bin", 4) == nil)
	case 2:
		verif_assume(A.DownloadAdd(0x52, "b.bin", 4) == nil)
	}
	body := verifPutBE32(nil, DEMON_COMMAND_FS_DOWNLOAD)
	body = verifPutBE32(body, 2)    // mode: close
	body = verifPutBE32(body, 0x51) // file id
	reason := nondet_u32("reason")
	body = verifPutBE32(body, reason)
	A.TaskDispatch(rid, COMMAND_FS, parser.NewParser(body), ts)
	verif_assert(!A.IsKnownRequestID(ts, rid, COMMAND_FS), "a download's close message retires the download task's request id")
	if state == 1 {
		if reason <= 1 { // the Demon's two close reasons: finished (0), removed (1)
			verif_assert(A.DownloadGet(0x51) == nil, "a closed download leaves the download table")
		}
	}
	if state == 2 {
		verif_assert(A.DownloadGet(0x52) != nil, "closing one download leaves the others alone")
	}
	verif_witness()
}
