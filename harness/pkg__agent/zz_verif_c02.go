package agent

import (
	"Havoc/pkg/common/crypt"
)

// ---- reference encodings (what the Demon's parser reads: Parser.c, little-endian)

func verifLEPut32(b []byte, v uint32) []byte {
	return append(b, byte(v), byte(v>>8), byte(v>>16), byte(v>>24))
}
func verifLEPut64(b []byte, v uint64) []byte {
	return verifLEPut32(verifLEPut32(b, uint32(v)), uint32(v>>32))
}

// verifNondetArg returns one argument of the chosen Go type and its reference encoding.
func verifNondetArg(kind int) (interface{}, []byte) {
	switch kind {
	case 0:
		v := nondet_u32("arg-int")
		return int(int32(v)), verifLEPut32(nil, v)
	case 1:
		v := nondet_u64("arg-int64")
		return int64(v), verifLEPut64(nil, v)
	case 2:
		v := nondet_u64("arg-uint64")
		return v, verifLEPut64(nil, v)
	case 3:
		v := nondet_u32("arg-int32")
		return int32(v), verifLEPut32(nil, v)
	case 4:
		v := nondet_u32("arg-uint32")
		return v, verifLEPut32(nil, v)
	case 5:
		v := nondet_u16("arg-int16")
		return int16(v), []byte{byte(v), byte(v >> 8)}
	case 6:
		v := nondet_u16("arg-uint16")
		return v, []byte{byte(v), byte(v >> 8)}
	case 7:
		s := nondet_string("arg-string", nondet_choice("arg-string-len", 3))
		enc := []byte(s)
		term := true
		if len(s) > 0 {
			if s[len(s)-1] == 0 {
				term = false
			}
		}
		if term {
			enc = append(enc, 0) // C strings arrive NUL-terminated
		}
		return s, append(verifLEPut32(nil, uint32(len(enc))), enc...)
	case 8:
		b := nondet_bytes("arg-bytes", nondet_choice("arg-bytes-len", 3))
		return b, append(verifLEPut32(nil, uint32(len(b))), b...)
	case 9:
		v := nondet_u8("arg-byte")
		return v, []byte{v}
	default:
		v := nondet_bool("arg-bool")
		if v {
			return v, verifLEPut32(nil, 1)
		}
		return v, verifLEPut32(nil, 0)
	}
}

// H_c02_build: a batch of 1..2 tasks with 0..2 arguments of any of the 11 supported types is
// framed as [cmd][request id][size][body], each body encrypted on its own under the session
// key/IV with the key stream restarting per task; decrypting and reading it the way the
// Demon does yields the same command, request id and arguments, and no body is sent in clear.
func H_c02_build() {
	key, iv := verifChainKey(1)
	n := 1 + nondet_choice("tasks", 2)
	var jobs []Job
	var plains [][]byte
	for t := 0; t < n; t++ {
		j := Job{Command: nondet_u32("cmd"), RequestID: nondet_u32("rid")}
		var plain []byte
		maxArgs := 2
		if n == 2 {
			maxArgs = verif_bound("two-task-batch-max-args", 1, 2)
		}
		k := nondet_choice("nargs", maxArgs+1)
		for a := 0; a < k; a++ {
			v, enc := verifNondetArg(nondet_choice("arg-type", 11))
			j.Data = append(j.Data, v)
			plain = append(plain, enc...)
		}
		jobs = append(jobs, j)
		plains = append(plains, plain)
	}
	out := BuildPayloadMessage(jobs, key, iv)
	pos := 0
	for t := 0; t < n; t++ {
		verif_assert(len(out)-pos >= 12, "every task has its 12 byte header")
		if len(out)-pos < 12 {
			return
		}
		verif_assert(verifLE32(out[pos:]) == jobs[t].Command, "command id reaches the agent as issued (little-endian)")
		verif_assert(verifLE32(out[pos+4:]) == jobs[t].RequestID, "request id reaches the agent as issued")
		size := int(verifLE32(out[pos+8:]))
		verif_assert(size == len(plains[t]), "announced body size is the size of the packed arguments")
		verif_assert(len(out)-pos-12 >= size, "the body is present in full")
		if size != len(plains[t]) || len(out)-pos-12 < size {
			return
		}
		if size > 0 {
			body := crypt.XCryptBytesAES256(out[pos+12:pos+12+size], key, iv)
			for i := range plains[t] {
				verif_assert(body[i] == plains[t][i], "decrypting the body on its own with the session key/IV yields the arguments in Demon read order")
			}
		}
		pos += 12 + size
	}
	verif_assert(pos == len(out), "nothing follows the last task")
	verif_witness()
}

func verifDigits(name string, n int) (string, int) {
	b := nondet_bytes(name, n)
	v := 0
	for _, c := range b {
		verif_assume(c >= '0')
		verif_assume(c <= '9')
		v = v*10 + int(c-'0')
	}
	return string(b), v
}

func verifHexDigits(name string, n int) (string, uint64) {
	b := nondet_bytes(name, n)
	var v uint64
	for _, c := range b {
		var d byte
		if c <= '9' {
			verif_assume(c >= '0')
			d = c - '0'
		} else {
			verif_assume(c >= 'a')
			verif_assume(c <= 'f')
			d = c - 'a' + 10
		}
		v = v<<4 | uint64(d)
	}
	return string(b), v
}

// H_c02_prepare: operator command packages go through the real TaskPrepare, queue and
// check-in reply; a reference reader that consumes the task the way the Demon's handler
// does (Command.c line numbers in DESIGN.md appendix A) must see the operator's command,
// the operator's task id as request id, and the operator's parameters.
func H_c02_prepare() {
	which := nondet_choice("command", 10)
	ts, A, _, _ := verifStateS()
	A.Encryption.AESKey, A.Encryption.AESIv = verifChainKey(1)
	info := map[string]any{}
	taskID := uint64(0x1234abcd)
	if which == 0 {
		var s string
		s, taskID = verifHexDigits("taskid", 8)
		info["TaskID"] = s
	} else {
		info["TaskID"] = "1234abcd"
	}
	var cmd int
	var want []uint32 // 32-bit little-endian reads of the handler, in order
	tail64 := false    // the last argument is packed as 64 bit, the handler reads its low half
	switch which {
	case 0:
		cmd = COMMAND_EXIT
		m := nondet_choice("exit-method", 2)
		info["ExitMethod"] = []string{"thread", "process"}[m]
		want = []uint32{uint32(1 + m)}
	case 1:
		cmd = COMMAND_SLEEP
		d, dv := verifDigits("delay", 1+nondet_choice("delay-len", 2))
		j, jv := verifDigits("jitter", 1+nondet_choice("jitter-len", 2))
		info["Arguments"] = d + ";" + j
		want = []uint32{uint32(dv), uint32(jv)}
	case 2:
		cmd = COMMAND_JOB
		sub := nondet_choice("job-sub", 4)
		info["Command"] = []string{"list", "suspend", "resume", "kill"}[sub]
		p, pv := verifDigits("job-id", 1+nondet_choice("job-id-len", 2))
		info["Param"] = p
		want = []uint32{uint32(1 + sub)}
		if sub != 0 {
			want = append(want, uint32(pv))
		}
	case 3:
		cmd = COMMAND_TRANSFER
		sub := nondet_choice("transfer-sub", 4)
		info["Command"] = []string{"list", "stop", "resume", "remove"}[sub]
		f, fv := verifHexDigits("file-id", 8)
		info["FileID"] = f
		want = []uint32{uint32(sub)}
		if sub != 0 {
			want = append(want, uint32(fv))
			tail64 = true
		}
	case 4:
		cmd = COMMAND_PROC
		info["ProcCommand"] = "7" // kill
		p, pv := verifDigits("pid", 1+nondet_choice("pid-len", 3))
		info["Args"] = p
		want = []uint32{7, uint32(pv)}
	case 5:
		cmd = COMMAND_PROC
		info["ProcCommand"] = "2" // modules
		p, pv := verifDigits("pid", 1+nondet_choice("pid-len", 3))
		info["Args"] = p
		want = []uint32{2, uint32(pv)}
	case 6:
		cmd = COMMAND_PROC_LIST
		ui := nondet_bool("from-ui")
		if ui {
			info["FromProcessManager"] = "true"
			want = []uint32{1}
		} else {
			info["FromProcessManager"] = "false"
			want = []uint32{0}
		}
	case 7:
		cmd = COMMAND_PROC_PPIDSPOOF
		p, pv := verifDigits("ppid", 1+nondet_choice("ppid-len", 3))
		info["PPID"] = p
		want = []uint32{uint32(pv)}
	case 8:
		cmd = COMMAND_PIVOT
		info["Command"] = "11" // disconnect
		f, fv := verifHexDigits("pivot-id", 8)
		info["Param"] = f
		want = []uint32{11, uint32(fv)}
		tail64 = true
	case 9:
		cmd = COMMAND_PIVOT
		info["Command"] = "1" // list
		want = []uint32{1}
	}
	msg := map[string]string{}
	job, err := A.TaskPrepare(cmd, info, &msg, "", ts)
	verif_assert(err == nil, "a well-formed operator command is accepted")
	if err != nil || job == nil {
		return
	}
	A.AddJobToQueue(*job)
	reply := BuildPayloadMessage(A.GetQueuedJobs(), A.Encryption.AESKey, A.Encryption.AESIv)
	task := verifDecodeOneTask(reply, A.Encryption.AESKey, A.Encryption.AESIv)
	verif_assert(task.OK, "the check-in reply holds exactly one well-formed task")
	if !task.OK {
		return
	}
	verif_assert(task.Cmd == uint32(cmd), "the agent sees the operator's command")
	verif_assert(task.Rid == uint32(taskID), "the request id is the operator's task id")
	wantLen := 4 * len(want)
	if tail64 {
		wantLen += 4
	}
	verif_assert(len(task.Body) == wantLen, "the task body holds exactly the handler's arguments")
	if len(task.Body) == wantLen {
		for i, w := range want {
			verif_assert(verifLE32(task.Body[4*i:]) == w, "argument read by the Demon handler equals the operator's parameter")
		}
	}
	verif_witness()
}

// UTF-16LE encoding of ASCII text with the terminating NUL, as x/text produces it for the
// characters the harness uses (the real encoder is a table-driven transformer).
//
//verif:stub-if c02fs Havoc/pkg/common.EncodeUTF16
func verifStubEncodeUTF16Agent(s string) []byte {
	var out []byte
	for i := 0; i < len(s); i++ {
		out = append(out, s[i], 0)
	}
	if len(s) == 0 || s[len(s)-1] != 0 {
		out = append(out, 0, 0)
	}
	return out
}

func verifWide(s string) []byte {
	var out []byte
	for i := 0; i < len(s); i++ {
		out = append(out, s[i], 0)
	}
	return append(out, 0, 0)
}

// verifFsBody appends one field the way the Demon's parser reads it: I = 32-bit little
// endian integer, W = length-prefixed wide string.
func verifFsInt(b []byte, v uint32) []byte {
	return append(b, byte(v), byte(v>>8), byte(v>>16), byte(v>>24))
}
func verifFsWide(b []byte, s string) []byte {
	w := verifWide(s)
	return append(verifFsInt(b, uint32(len(w))), w...)
}

// H_c02_fs: the file-system commands reach the agent as issued: for cd / remove / mkdir / pwd /
// dir (console form with its four flags and three filters) / dir (file-explorer form) the
// task body equals what the Demon's CommandFS reads field by field (Command.c l.675: I
// sub-command; dir: I explorer flag, W path, I sub-dirs, I files-only, I dirs-only, I
// list-only, W starts, W contains, W ends; cd/remove/mkdir: W path; pwd: nothing), for paths
// made of a drive prefix and two arbitrary printable characters. A directory path that ends
// in a backslash or is a bare drive gets the wildcard the Demon's FindFirstFile needs.
func H_c02_fs() {
	ts, A, _, _ := verifStateS()
	sub := nondet_choice("fs-sub", 6)
	tail := nondet_bytes("path-tail", 2)
	for _, c := range tail {
		verif_assume(c >= 0x20)
		verif_assume(c < 0x7f)
		verif_assume(c != ';') // the client separates the fields of "dir" with semicolons
	}
	path := "C:" + string(tail)
	info := map[string]any{"TaskID": "0000000d"}
	var want []byte
	dirPath := path
	if tail[1] == '\\' {
		dirPath = path + "*"
	} else if tail[1] == ':' {
		dirPath = path + "\\*"
	}
	flags := []bool{nondet_bool("subdirs"), nondet_bool("files-only"), nondet_bool("dirs-only"), nondet_bool("list-only")}
	fl := func(b bool) string {
		if b {
			return "true"
		}
		return "false"
	}
	fi := func(b bool) uint32 {
		if b {
			return 1
		}
		return 0
	}
	switch sub {
	case 0:
		info["SubCommand"], info["Arguments"] = "cd", path
		want = verifFsWide(verifFsInt(nil, 4), path)
	case 1:
		info["SubCommand"], info["Arguments"] = "remove", path
		want = verifFsWide(verifFsInt(nil, 5), path)
	case 2:
		info["SubCommand"], info["Arguments"] = "mkdir", path
		want = verifFsWide(verifFsInt(nil, 6), path)
	case 3:
		info["SubCommand"], info["Arguments"] = "pwd", ""
		want = verifFsInt(nil, 9)
	case 4:
		info["SubCommand"] = "dir"
		info["Arguments"] = path + ";" + fl(flags[0]) + ";" + fl(flags[1]) + ";" + fl(flags[2]) + ";" + fl(flags[3]) + ";st;co;en"
		want = verifFsInt(nil, 1)
		want = verifFsInt(want, 0)
		want = verifFsWide(want, dirPath)
		for k := 0; k < 4; k++ {
			want = verifFsInt(want, fi(flags[k]))
		}
		want = verifFsWide(verifFsWide(verifFsWide(want, "st"), "co"), "en")
	case 5:
		info["SubCommand"], info["Arguments"] = "dir;ui", path
		want = verifFsInt(nil, 1)
		want = verifFsInt(want, 1)
		want = verifFsWide(want, dirPath)
		for k := 0; k < 4; k++ {
			want = verifFsInt(want, 0)
		}
		want = verifFsWide(verifFsWide(verifFsWide(want, ""), ""), "")
	}
	msg := map[string]string{}
	job, err := A.TaskPrepare(COMMAND_FS, info, &msg, "", ts)
	verif_assert(err == nil, "a well-formed file-system command is accepted")
	if err != nil || job == nil {
		return
	}
	A.AddJobToQueue(*job)
	reply := BuildPayloadMessage(A.GetQueuedJobs(), A.Encryption.AESKey, A.Encryption.AESIv)
	task := verifDecodeOneTask(reply, A.Encryption.AESKey, A.Encryption.AESIv)
	verif_assert(task.OK, "the check-in reply holds exactly one well-formed task")
	if !task.OK {
		return
	}
	verif_assert(task.Cmd == COMMAND_FS, "the agent sees the operator's command")
	verif_assert(task.Rid == 0xd, "the request id is the operator's task id")
	verif_assert(len(task.Body) == len(want), "the task body holds exactly the fields the Demon reads")
	if len(task.Body) == len(want) {
		for i := range want {
			verif_assert(task.Body[i] == want[i], "every field read by the Demon's CommandFS equals the operator's parameter")
		}
	}
	verif_witness()
}

// H_c02_token: the token commands reach the agent as issued (Command.c l.1376 CommandToken:
// I sub-command; impersonate/remove: I token id; steal: I pid, I handle; privs-list: I 1;
// privs-get: I 0, S privilege name; list/getuid/revert/clear: nothing), for ids and pids of
// 1..3 arbitrary digits, handles of 1..4 arbitrary hex digits and a privilege name of two
// arbitrary printable characters.
func H_c02_token() {
	ts, A, _, _ := verifStateS()
	sub := nondet_choice("token-sub", 9)
	info := map[string]any{"TaskID": "0000000d"}
	var want []byte
	switch sub {
	case 0, 1:
		id, idv := verifDigits("token-id", 1+nondet_choice("token-id-len", 3))
		name, code := "impersonate", uint32(1)
		if sub == 1 {
			name, code = "remove", 8
		}
		info["SubCommand"], info["Arguments"] = name, id
		want = verifFsInt(verifFsInt(nil, code), uint32(idv))
	case 2:
		pid, pidv := verifDigits("pid", 1+nondet_choice("pid-len", 3))
		h, hv := verifHexDigits("handle", 1+nondet_choice("handle-len", 4))
		info["SubCommand"], info["Arguments"] = "steal", pid+";"+h
		want = verifFsInt(verifFsInt(verifFsInt(nil, 2), uint32(pidv)), uint32(hv))
	case 3:
		info["SubCommand"] = "list"
		want = verifFsInt(nil, 3)
	case 4:
		info["SubCommand"] = "privs-list"
		want = verifFsInt(verifFsInt(nil, 4), 1)
	case 5:
		pb := nondet_bytes("privilege", 2)
		for _, c := range pb {
			verif_assume(c >= 0x21)
			verif_assume(c < 0x7f)
		}
		info["SubCommand"], info["Arguments"] = "privs-get", string(pb)
		want = verifFsInt(verifFsInt(nil, 4), 0)
		// S: length-prefixed bytes with the terminating NUL
		want = verifFsInt(want, 3)
		want = append(want, pb[0], pb[1], 0)
	case 6:
		info["SubCommand"] = "getuid"
		want = verifFsInt(nil, 6)
	case 7:
		info["SubCommand"] = "revert"
		want = verifFsInt(nil, 7)
	case 8:
		info["SubCommand"] = "clear"
		want = verifFsInt(nil, 9)
	}
	msg := map[string]string{}
	job, err := A.TaskPrepare(COMMAND_TOKEN, info, &msg, "", ts)
	verif_assert(err == nil, "a well-formed token command is accepted")
	if err != nil || job == nil {
		return
	}
	A.AddJobToQueue(*job)
	reply := BuildPayloadMessage(A.GetQueuedJobs(), A.Encryption.AESKey, A.Encryption.AESIv)
	task := verifDecodeOneTask(reply, A.Encryption.AESKey, A.Encryption.AESIv)
	verif_assert(task.OK, "the check-in reply holds exactly one well-formed task")
	if !task.OK {
		return
	}
	verif_assert(task.Cmd == COMMAND_TOKEN, "the agent sees the operator's command")
	verif_assert(task.Rid == 0xd, "the request id is the operator's task id")
	verif_assert(len(task.Body) == len(want), "the task body holds exactly the fields the Demon reads")
	if len(task.Body) == len(want) {
		for i := range want {
			verif_assert(task.Body[i] == want[i], "every field read by the Demon's CommandToken equals the operator's parameter")
		}
	}
	verif_witness()
}

// H_c02_proc: process commands reach the agent as issued (Command.c l.265 CommandProc: I
// sub-command; grep: W name; create: I state, W process, W arguments, I piped, I verbose;
// memory: I pid, I protection with the Windows PAGE_* values), for a process name / path of
// two arbitrary printable characters, arbitrary flags, a 1..3 digit pid and every protection.
func H_c02_proc() {
	ts, A, _, _ := verifStateS()
	sub := nondet_choice("proc-sub", 3)
	info := map[string]any{"TaskID": "0000000d"}
	var want []byte
	nb := nondet_bytes("name", 2)
	for _, c := range nb {
		verif_assume(c >= 0x21)
		verif_assume(c < 0x7f)
		verif_assume(c != ';')
	}
	name := string(nb)
	switch sub {
	case 0:
		info["ProcCommand"], info["Args"] = "3", name
		want = verifFsWide(verifFsInt(nil, 3), name)
	case 1:
		state := nondet_choice("state", 3)
		verbose, piped := nondet_bool("verbose"), nondet_bool("piped")
		tf := func(b bool) string {
			if b {
				return []string{"true", "True", "TRUE"}[nondet_choice("true-spelling", 3)]
			}
			return "false"
		}
		// State;Verbose;Piped;Process;base64(Arguments); the arguments are the two bytes "a1"
		info["ProcCommand"] = "4"
		info["Args"] = []string{"0", "1", "4"}[state] + ";" + tf(verbose) + ";" + tf(piped) + ";" + name + ";YTE="
		want = verifFsInt(verifFsInt(nil, 4), []uint32{0, 1, 4}[state])
		want = verifFsWide(verifFsWide(want, name), "a1")
		pv, vv := uint32(0), uint32(0)
		if piped {
			pv = 1
		}
		if verbose {
			vv = 1
		}
		want = verifFsInt(verifFsInt(want, pv), vv)
	case 2:
		pid, pidv := verifDigits("pid", 1+nondet_choice("pid-len", 3))
		k := nondet_choice("protection", 9)
		names := []string{"PAGE_NOACCESS", "PAGE_READONLY", "PAGE_READWRITE", "PAGE_WRITECOPY", "PAGE_EXECUTE", "PAGE_EXECUTE_READ", "PAGE_EXECUTE_READWRITE", "PAGE_EXECUTE_WRITECOPY", "PAGE_GUARD"}
		codes := []uint32{0x01, 0x02, 0x04, 0x08, 0x10, 0x20, 0x40, 0x80, 0x100} // winnt.h
		info["ProcCommand"], info["Args"] = "6", pid+" "+names[k]
		want = verifFsInt(verifFsInt(verifFsInt(nil, 6), uint32(pidv)), codes[k])
	}
	msg := map[string]string{}
	job, err := A.TaskPrepare(COMMAND_PROC, info, &msg, "", ts)
	verif_assert(err == nil, "a well-formed process command is accepted")
	if err != nil || job == nil {
		return
	}
	A.AddJobToQueue(*job)
	reply := BuildPayloadMessage(A.GetQueuedJobs(), A.Encryption.AESKey, A.Encryption.AESIv)
	task := verifDecodeOneTask(reply, A.Encryption.AESKey, A.Encryption.AESIv)
	verif_assert(task.OK, "the check-in reply holds exactly one well-formed task")
	if !task.OK {
		return
	}
	verif_assert(task.Cmd == COMMAND_PROC, "the agent sees the operator's command")
	verif_assert(task.Rid == 0xd, "the request id is the operator's task id")
	verif_assert(len(task.Body) == len(want), "the task body holds exactly the fields the Demon reads")
	if len(task.Body) == len(want) {
		for i := range want {
			verif_assert(task.Body[i] == want[i], "every field read by the Demon's CommandProc equals the operator's parameter")
		}
	}
	verif_witness()
}
