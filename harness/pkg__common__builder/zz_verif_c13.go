package builder

import (
	"Havoc/pkg/handlers"
)

// x/text's UTF-16 encoder (reflection-free but ~1400 functions deep) is replaced inside gosx
// by its exact behaviour on ASCII text, which is what the harness feeds it: every byte
// followed by a zero byte, after Havoc's own NUL-terminator logic.
//
//verif:stub Havoc/pkg/common.EncodeUTF16
func verifStubEncodeUTF16(s string) []byte {
	term := true
	if len(s) > 0 {
		if s[len(s)-1] == 0 {
			term = false
		}
	}
	if term {
		s += "\x00"
	}
	out := make([]byte, 0, 2*len(s))
	for i := 0; i < len(s); i++ {
		out = append(out, s[i], 0)
	}
	return out
}

// the working-hours grammar ^[12]?[0-9]:[0-6][0-9]-[12]?[0-9]:[0-6][0-9]$ decided by hand
// (regexp is not encoded); used for this one pattern only.
//
//verif:stub regexp.MatchString
func verifStubMatchString(pattern string, s string) (bool, error) {
	pos := 0
	for part := 0; part < 2; part++ {
		// [12]?[0-9]:
		if pos >= len(s) {
			return false, nil
		}
		n := 0
		for pos+n < len(s) {
			if s[pos+n] == ':' {
				break
			}
			n++
		}
		if n != 1 {
			if n != 2 {
				return false, nil
			}
		}
		if n == 2 {
			if s[pos] != '1' {
				if s[pos] != '2' {
					return false, nil
				}
			}
		}
		last := s[pos+n-1]
		if last < '0' {
			return false, nil
		}
		if last > '9' {
			return false, nil
		}
		pos += n
		if pos >= len(s) {
			return false, nil
		}
		pos++ // ':'
		if pos+2 > len(s) {
			return false, nil
		}
		if s[pos] < '0' {
			return false, nil
		}
		if s[pos] > '6' {
			return false, nil
		}
		if s[pos+1] < '0' {
			return false, nil
		}
		if s[pos+1] > '9' {
			return false, nil
		}
		pos += 2
		if part == 0 {
			if pos >= len(s) {
				return false, nil
			}
			if s[pos] != '-' {
				return false, nil
			}
			pos++
		}
	}
	return pos == len(s), nil
}

// ---- reference reader mirroring payloads/Demon/src/Demon.c DemonConfig() l.586-622 and the
// SMB transport block l.766-784 (little-endian Parser.c reads)

type verifCfgReader struct {
	b   []byte
	pos int
	ok  bool
}

func (r *verifCfgReader) i32() uint32 {
	if r.pos+4 > len(r.b) {
		r.ok = false
		return 0
	}
	v := uint32(r.b[r.pos]) | uint32(r.b[r.pos+1])<<8 | uint32(r.b[r.pos+2])<<16 | uint32(r.b[r.pos+3])<<24
	r.pos += 4
	return v
}
func (r *verifCfgReader) i64() uint64 {
	lo := r.i32()
	hi := r.i32()
	return uint64(lo) | uint64(hi)<<32
}
func (r *verifCfgReader) bytes() []byte {
	n := int(r.i32())
	if r.pos+n > len(r.b) {
		r.ok = false
		return nil
	}
	v := r.b[r.pos : r.pos+n]
	r.pos += n
	return v
}

// wide returns the ASCII text of a NUL-terminated UTF-16LE field.
func (r *verifCfgReader) wide() string {
	raw := r.bytes()
	var out []byte
	for i := 0; i+1 < len(raw); i += 2 {
		if raw[i] == 0 {
			if raw[i+1] == 0 {
				break
			}
		}
		out = append(out, raw[i])
	}
	return string(out)
}

var (
	verifAllocOpts   = []string{"Win32", "Native/Syscall", "Other"}
	verifSleepOpts   = []string{"WaitForSingleObjectEx", "Foliage", "Ekko", "Zilean", "Other"}
	verifSleepCodes  = []uint32{SLEEPOBF_NO_OBF, SLEEPOBF_FOLIAGE, SLEEPOBF_EKKO, SLEEPOBF_ZILEAN, SLEEPOBF_NO_OBF}
	verifGadgetOpts  = []string{"None", "jmp rax", "jmp rbx"}
	verifGadgetCodes = []uint32{SLEEPOBF_BYPASS_NONE, SLEEPOBF_BYPASS_JMPRAX, SLEEPOBF_BYPASS_JMPRBX}
	verifProxyOpts   = []string{"None (LdrLoadDll)", "RtlRegisterWait", "RtlCreateTimer", "RtlQueueWorkItem", "Other"}
	verifProxyCodes  = []uint32{PROXYLOADING_NONE, PROXYLOADING_RTLREGISTERWAIT, PROXYLOADING_RTLCREATETIMER, PROXYLOADING_RTLQUEUEWORKITEM, PROXYLOADING_NONE}
	verifAmsiOpts    = []string{"None", "Hardware breakpoints"}
)

func verifDigitsB(name string, n int) (string, int) {
	b := nondet_bytes(name, n)
	v := 0
	for _, c := range b {
		verif_assume(c >= '0')
		verif_assume(c <= '9')
		v = v*10 + int(c-'0')
	}
	return string(b), v
}

// H_c13_options: the configuration block of an SMB Demon, read field by field the way the
// Demon reads it, equals the operator's build options and the listener's pipe name, kill
// date and working hours; jitter outside 0..100 fails the build.
func H_c13_options() {
	b := &Builder{silent: true}
	b.SendConsoleMessage = func(MsgType, Message string) {}
	sleepS, sleepV := verifDigitsB("sleep", 2)
	jitS, jitV := verifDigitsB("jitter", 1+nondet_choice("jitter-len", 3))
	ai := nondet_choice("alloc", 3)
	ei := nondet_choice("execute", 3)
	si := nondet_choice("sleep-technique", 5)
	gi := nondet_choice("jmp-gadget", 3)
	pi := nondet_choice("proxy-loading", 5)
	mi := nondet_choice("amsi", 2)
	stack := nondet_bool("stack-dup")
	sysc := nondet_bool("indirect-syscall")
	b.config.Config = map[string]any{
		"Sleep":  sleepS,
		"Jitter": jitS,
		"Injection": map[string]any{
			"Alloc": verifAllocOpts[ai], "Execute": verifAllocOpts[ei], "Spawn64": "C:\\a.exe", "Spawn32": "C:\\b.exe",
		},
		"Sleep Technique":   verifSleepOpts[si],
		"Sleep Jmp Gadget":  verifGadgetOpts[gi],
		"Stack Duplication": stack,
		"Proxy Loading":     verifProxyOpts[pi],
		"Amsi/Etw Patch":    verifAmsiOpts[mi],
		"Indirect Syscall":  sysc,
	}
	kill := nondet_u64("killdate")
	smb := &handlers.SMB{}
	smb.Config.PipeName = "pipe1"
	smb.Config.KillDate = int64(kill)
	smb.Config.WorkingHours = ""
	b.config.ListenerType = handlers.LISTENER_PIVOT_SMB
	b.config.ListenerConfig = smb

	cfg, err := b.PatchConfig()
	if jitV > 100 {
		verif_assert(err != nil, "a jitter above 100 makes the build fail")
		verif_witness()
		return
	}
	verif_assert(err == nil, "valid options build")
	if err != nil {
		return
	}
	r := &verifCfgReader{b: cfg, ok: true}
	verif_assert(r.i32() == uint32(sleepV), "Sleep as chosen")
	verif_assert(r.i32() == uint32(jitV), "Jitter as chosen")
	allocCodes := []uint32{1, 2, 0}
	verif_assert(r.i32() == allocCodes[ai], "allocation method as chosen")
	verif_assert(r.i32() == allocCodes[ei], "execution method as chosen")
	verif_assert(r.wide() == "C:\\a.exe", "Spawn64 as chosen")
	verif_assert(r.wide() == "C:\\b.exe", "Spawn32 as chosen")
	wantTech := verifSleepCodes[si]
	verif_assert(r.i32() == wantTech, "sleep technique as chosen (the jump gadget choice must not change it)")
	wantGadget := uint32(SLEEPOBF_BYPASS_NONE)
	if wantTech != SLEEPOBF_NO_OBF {
		wantGadget = verifGadgetCodes[gi]
	}
	verif_assert(r.i32() == wantGadget, "jump gadget as chosen (ignored without sleep obfuscation)")
	wantStack := uint32(0)
	if stack {
		if wantTech != SLEEPOBF_NO_OBF {
			wantStack = 1
		}
	}
	verif_assert(r.i32() == wantStack, "stack duplication as chosen (ignored without sleep obfuscation)")
	verif_assert(r.i32() == verifProxyCodes[pi], "proxy loading as chosen")
	wantSys := uint32(0)
	if sysc {
		wantSys = 1
	}
	verif_assert(r.i32() == wantSys, "indirect syscalls as chosen")
	verif_assert(r.i32() == uint32(mi), "AMSI/ETW patch as chosen")
	// SMB transport block
	verif_assert(r.wide() == "\\\\.\\pipe\\pipe1", "pipe name of the selected SMB listener")
	verif_assert(r.i64() == kill, "kill date of the selected listener")
	verif_assert(r.i32() == 0, "no working hours")
	verif_assert(r.ok, "the Demon's reads stay inside the block")
	verif_assert(r.pos == len(cfg), "nothing follows the last field the Demon reads")
	verif_witness()
}

// H_c13_hours: working-hours strings over the accepted grammar pack to the Demon's bit layout
// (Command.c l.3273: enabled<<22 | startH<<17 | startM<<11 | endH<<6 | endM); an end that is
// not after the start, or an hour/minute out of range, fails instead of yielding a payload.
func H_c13_hours() {
	h1 := 1 + nondet_choice("start-hour-digits", 2)
	h2 := 1 + nondet_choice("end-hour-digits", 2)
	sh, shv := verifDigitsB("start-hour", h1)
	sm, smv := verifDigitsB("start-min", 2)
	eh, ehv := verifDigitsB("end-hour", h2)
	em, emv := verifDigitsB("end-min", 2)
	s := sh + ":" + sm + "-" + eh + ":" + em
	b := &Builder{silent: true}
	b.SendConsoleMessage = func(MsgType, Message string) {}
	b.config.Config = map[string]any{
		"Sleep": "5", "Jitter": "10",
		"Injection":         map[string]any{"Alloc": "Win32", "Execute": "Win32", "Spawn64": "a", "Spawn32": "b"},
		"Sleep Technique":   "Ekko",
		"Sleep Jmp Gadget":  "None",
		"Stack Duplication": false,
		"Proxy Loading":     "None (LdrLoadDll)",
		"Amsi/Etw Patch":    "None",
	}
	smb := &handlers.SMB{}
	smb.Config.PipeName = "p"
	smb.Config.WorkingHours = s
	b.config.ListenerType = handlers.LISTENER_PIVOT_SMB
	b.config.ListenerConfig = smb
	cfg, err := b.PatchConfig()
	grammar, _ := verifStubMatchString("", s)
	valid := grammar
	if shv > 24 || ehv > 24 || smv > 60 || emv > 60 {
		valid = false
	}
	if ehv < shv {
		valid = false
	}
	if ehv == shv {
		if emv <= smv {
			valid = false
		}
	}
	verif_assert((err == nil) == valid, "working hours build exactly when they follow the grammar and end after they start")
	if err == nil {
		if valid {
			want := uint32(1)<<22 | uint32(shv&31)<<17 | uint32(smv&63)<<11 | uint32(ehv&31)<<6 | uint32(emv&63)
			verif_assert(len(cfg) >= 4, "config present")
			n := len(cfg)
			got := uint32(cfg[n-4]) | uint32(cfg[n-3])<<8 | uint32(cfg[n-2])<<16 | uint32(cfg[n-1])<<24
			verif_assert(got == want, "working hours packed in the Demon's bit layout")
		}
	}
	verif_witness()
}

// interface names are resolved through the OS; host strings in the harness are not interface
// names, for which the real function returns its argument
//
//verif:stub Havoc/pkg/common.GetInterfaceIpv4Addr
func verifStubIfaceAddr(s string) string { return s }

func verifBaseBuilder() *Builder {
	b := &Builder{silent: true}
	b.SendConsoleMessage = func(MsgType, Message string) {}
	b.config.Config = map[string]any{
		"Sleep":  "2",
		"Jitter": "10",
		"Injection": map[string]any{
			"Alloc": verifAllocOpts[0], "Execute": verifAllocOpts[0], "Spawn64": "C:\\a.exe", "Spawn32": "C:\\b.exe",
		},
		"Sleep Technique":   verifSleepOpts[0],
		"Sleep Jmp Gadget":  verifGadgetOpts[0],
		"Stack Duplication": false,
		"Proxy Loading":     verifProxyOpts[0],
		"Amsi/Etw Patch":    verifAmsiOpts[0],
		"Indirect Syscall":  false,
	}
	return b
}

// verifSkipGeneral reads the 12 general fields that precede the transport block.
func verifSkipGeneral(r *verifCfgReader) {
	r.i32()
	r.i32()
	r.i32()
	r.i32()
	r.wide()
	r.wide()
	for k := 0; k < 6; k++ {
		r.i32()
	}
}

// H_c13_http: the transport block of an HTTP listener, read the way the Demon reads it
// (Demon.c DemonConfig, TRANSPORT_HTTP: kill date, working hours, method, host rotation,
// host count, (host, port)*, secure, user agent, header count, headers, uri count, uris,
// proxy flag [, url, user, password]), equals the listener's settings: every host with its
// own port or the listener's connect port (bind port when no connect port is set), TLS flag,
// user agent, headers incl. the host header, URIs, proxy; an unparsable port or the GET
// method makes the build fail. Building twice from the same listener gives the same block.
func H_c13_http() {
	b := verifBaseBuilder()
	h := &handlers.HTTP{}
	kill := nondet_u64("killdate")
	h.Config.KillDate = int64(kill)
	h.Config.WorkingHours = ""
	method := []string{"POST", "post", "GET", "get", ""}[nondet_choice("method", 5)]
	h.Config.Methode = method
	// independent code paths share a choice to keep the product small: rotation with the URI
	// count, the TLS flag with the host header
	nu := nondet_choice("uris", 3)
	rot := nu
	h.Config.HostRotation = []string{"round-robin", "random", ""}[rot]
	connS, connV := "", 0
	if nondet_bool("port-conn-set") {
		connS, connV = verifDigitsB("port-conn", 2)
	}
	bindS, bindV := verifDigitsB("port-bind", 2)
	badPort := nondet_choice("bad-port", 3) // 0 none, 1 connect port not a number, 2 a host port not a number
	if badPort == 1 {
		connS = "4x"
	}
	h.Config.PortConn = connS
	h.Config.PortBind = bindS
	wantPort := connV
	if connS == "" {
		wantPort = bindV
	}
	nh := 1 + nondet_choice("hosts", 3)
	var wantHosts []string
	var wantPorts []int
	for k := 0; k < nh; k++ {
		name := []string{"h0.example", "10.0.0.2", "h2"}[k]
		if nondet_bool("host-has-port") {
			ps, pv := verifDigitsB("host-port", 2)
			if badPort == 2 {
				if k == nh-1 {
					ps = "8o"
				}
			}
			h.Config.Hosts = append(h.Config.Hosts, name+":"+ps)
			wantPorts = append(wantPorts, pv)
		} else {
			h.Config.Hosts = append(h.Config.Hosts, name)
			wantPorts = append(wantPorts, wantPort)
		}
		wantHosts = append(wantHosts, name)
	}
	hostPortBad := false
	if badPort == 2 {
		if len(h.Config.Hosts[nh-1]) > len(wantHosts[nh-1]) {
			hostPortBad = true
		}
	}
	uab := nondet_bytes("ua", 1)
	verif_assume(uab[0] >= 0x20) // printable ASCII (the wide-string reader of the harness stops at NUL)
	verif_assume(uab[0] < 0x7f)
	ua := "UA" + string(uab)
	h.Config.UserAgent = ua
	nhd := nondet_choice("headers", 3)
	var hdrs []string
	for k := 0; k < nhd; k++ {
		hdrs = append(hdrs, []string{"X-A: 1", "X-B: two"}[k])
	}
	h.Config.Headers = append([]string(nil), hdrs...)
	hostHdr := ""
	if nondet_bool("host-header") {
		hostHdr = "front.example"
	}
	h.Config.HostHeader = hostHdr
	h.Config.Secure = hostHdr != ""
	var uris []string
	for k := 0; k < nu; k++ {
		uris = append(uris, []string{"/a", "/b/c"}[k])
	}
	h.Config.Uris = uris
	proxy := nondet_bool("proxy")
	h.Config.Proxy.Enabled = proxy
	h.Config.Proxy.Type, h.Config.Proxy.Host, h.Config.Proxy.Port = "http", "px", "3128"
	h.Config.Proxy.Username, h.Config.Proxy.Password = "pu", "pp"
	b.config.ListenerType = handlers.LISTENER_HTTP
	b.config.ListenerConfig = h

	cfg, err := b.PatchConfig()
	mustFail := false
	if badPort == 1 {
		mustFail = true
	}
	if hostPortBad {
		mustFail = true
	}
	if method == "GET" || method == "get" {
		mustFail = true
	}
	if mustFail {
		verif_assert(err != nil, "a listener setting that cannot be encoded makes the build fail")
		verif_witness()
		return
	}
	verif_assert(err == nil, "a valid HTTP listener builds")
	if err != nil {
		return
	}
	r := &verifCfgReader{b: cfg, ok: true}
	verifSkipGeneral(r)
	verif_assert(r.i64() == kill, "kill date of the selected listener")
	verif_assert(r.i32() == 0, "no working hours")
	verif_assert(r.wide() == "POST", "method")
	wantRot := uint32(1)
	if rot == 0 {
		wantRot = 0
	}
	verif_assert(r.i32() == wantRot, "host rotation as configured")
	verif_assert(r.i32() == uint32(nh), "host count")
	for k := 0; k < nh; k++ {
		verif_assert(r.wide() == wantHosts[k], "every host, in order")
		verif_assert(r.i32() == uint32(wantPorts[k]), "every host with its own port, or the listener's connect/bind port")
	}
	wantSec := uint32(0)
	if h.Config.Secure {
		wantSec = 1
	}
	verif_assert(r.i32() == wantSec, "TLS flag")
	verif_assert(r.wide() == ua, "user agent")
	var wantHdrs []string
	if nhd == 0 {
		wantHdrs = []string{"Content-type: */*"}
	} else {
		wantHdrs = append(wantHdrs, hdrs...)
	}
	if hostHdr != "" {
		wantHdrs = append(wantHdrs, "Host: "+hostHdr)
	}
	verif_assert(r.i32() == uint32(len(wantHdrs)), "header count (configured headers plus the host header)")
	for _, w := range wantHdrs {
		verif_assert(r.wide() == w, "every header, the host header last")
	}
	wantUris := uris
	if nu == 0 {
		wantUris = []string{"/"}
	}
	verif_assert(r.i32() == uint32(len(wantUris)), "URI count")
	for _, w := range wantUris {
		verif_assert(r.wide() == w, "every URI, in order")
	}
	if proxy {
		verif_assert(r.i32() == 1, "proxy enabled")
		verif_assert(r.wide() == "http://px:3128", "proxy url")
		verif_assert(r.wide() == "pu", "proxy user")
		verif_assert(r.wide() == "pp", "proxy password")
	} else {
		verif_assert(r.i32() == 0, "proxy disabled")
	}
	verif_assert(r.ok, "the Demon's reads stay inside the block")
	verif_assert(r.pos == len(cfg), "nothing follows the last field the Demon reads")
	// a second payload for the same listener is configured the same way
	cfg2, err2 := b.PatchConfig()
	verif_assert(err2 == nil, "a second build for the same listener succeeds")
	verif_assert(len(cfg2) == len(cfg), "a second build for the same listener yields the same configuration block")
	verif_witness()
}

// verifShellData: a character the POSIX shell takes as data in an unquoted word
func verifShellData(c byte) bool {
	if c >= 'a' && c <= 'z' {
		return true
	}
	if c >= 'A' && c <= 'Z' {
		return true
	}
	if c >= '0' && c <= '9' {
		return true
	}
	switch c {
	case '_', '-', '.', ',', ':', '/', '@', '%', '+', '=':
		return true
	}
	return false
}

// H_c13_service_name: the operator's service name becomes the preprocessor define
// SERVICE_NAME="<name>" on the compiler command line, and that command line is run through
// "sh -c": for every name of 1..2 arbitrary characters either the build is refused, or
// every character of the name is one the shell takes as data (so the name can never be run
// as a shell command), and the define carries exactly the name.
func H_c13_service_name() {
	b := verifBaseBuilder()
	b.FileType = FILETYPE_WINDOWS_SERVICE_EXE
	name := nondet_bytes("service-name", 1+nondet_choice("service-name-len", 2))
	b.config.Config["Service Name"] = string(name)
	smb := &handlers.SMB{}
	smb.Config.PipeName = "pipe1"
	b.config.ListenerType = handlers.LISTENER_PIVOT_SMB
	b.config.ListenerConfig = smb
	_, err := b.PatchConfig()
	if err != nil {
		verif_witness()
		return // the build fails: nothing reaches the shell
	}
	found := 0
	for _, d := range b.compilerOptions.Defines {
		if len(d) >= 13 {
			if d[:13] == "SERVICE_NAME=" {
				found++
				want := "SERVICE_NAME=\\\"" + string(name) + "\\\""
				verif_assert(d == want, "the define carries exactly the operator's service name")
			}
		}
	}
	verif_assert(found == 1, "the service name is passed as one preprocessor define")
	for _, c := range name {
		verif_assert(verifShellData(c), "a service name that reaches the sh -c command line consists of characters the shell takes as data")
	}
	verif_witness()
}
