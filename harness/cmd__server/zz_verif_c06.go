package server

import (
	"Havoc/pkg/packager"
)

// verifArbitraryInfoValue: the image of json.Unmarshal for one key of Body.Info.
func verifArbitraryInfoValue(name string, right string, cross string) (any, bool) {
	switch nondet_choice(name, 8) {
	case 7:
		return cross, true // a value that is right for somebody else
	case 0:
		return nil, false // key absent
	case 1:
		return right, true
	case 2:
		return "other", true
	case 3:
		return float64(1), true
	case 4:
		return true, true
	case 5:
		return nil, true // JSON null
	default:
		return map[string]any{"x": "y"}, true
	}
}

// H_c06_first: an arbitrary first message on a fresh connection. Until it names an operator
// of the profile and carries the digest of that operator's password, the connection gets
// nothing but an error / auth reply, triggers no action, and cannot crash the teamserver.
func H_c06_first() {
	withOps := nondet_choice("operators-block", 2) == 1
	t := verifNewTeamserver(withOps)
	t.EventsList = append(t.EventsList, verifMarker(1), verifMarker(2))
	c := verifAddClient(t, "x", false)
	other := verifAddClient(t, "op", true)
	other.Username = "op1" // an operator of the profile is logged in on another connection

	var pk packager.Package
	users := []string{"op1", "op2", "ghost", ""}
	ui := nondet_choice("head-user", 4)
	pk.Head.User = users[ui]
	pk.Head.Event = int(nondet_i32("event"))
	pk.Body.SubEvent = int(nondet_i32("subevent"))
	rightPw := ""
	if ui == 0 {
		rightPw = verifDigestHex("pw1")
	}
	if ui == 1 {
		rightPw = verifDigestHex("pw2")
	}
	if nondet_choice("info-present", 2) == 1 {
		pk.Body.Info = map[string]any{}
		if v, ok := verifArbitraryInfoValue("info-user", users[ui], "op2"); ok {
			pk.Body.Info["User"] = v
		}
		crossPw := verifDigestHex("pw1") // the digest of another operator's password
		if ui == 0 {
			crossPw = verifDigestHex("pw2")
		}
		if v, ok := verifArbitraryInfoValue("info-password", rightPw, crossPw); ok {
			pk.Body.Info["Password"] = v
		}
	}
	follow := verifMarker(55)
	follow.Head.Event = 0x7777
	verifIncoming = []packager.Package{pk, follow}

	t.handleRequest("x")

	// expected decision
	expected := false
	if withOps {
		if ui <= 1 {
			if pk.Head.Event == packager.Type.InitConnection.Type {
				if pk.Body.SubEvent == packager.Type.InitConnection.OAuthRequest {
					if pw, ok := pk.Body.Info["Password"].(string); ok {
						if pw == rightPw {
							expected = true
						}
					}
				}
			}
		}
	}
	dispatched := false
	for _, e := range t.EventsList {
		if e.Head.Event == 0x7777 {
			dispatched = true
		}
	}
	frames := verifFramesTo(c)
	if !expected {
		verif_assert(!c.Authenticated, "a connection whose first message does not carry an operator's digest is never marked authenticated")
		verif_assert(!dispatched, "no message of an unauthenticated connection is recorded or dispatched")
		for _, f := range frames {
			verif_assert(f.Head.Event == packager.Type.InitConnection.Type, "an unauthenticated connection receives nothing but the handshake reply")
			verif_assert(f.Body.SubEvent == packager.Type.InitConnection.Error, "an unauthenticated connection receives nothing but an error reply")
		}
		verif_assert(len(frames) <= 1, "an unauthenticated connection receives at most the one error reply")
		verif_assert(len(verifFramesTo(other)) == 0, "a rejected handshake is not announced to the operators")
		_, still := t.Clients.Load("op")
		verif_assert(still, "a rejected handshake does not remove a logged-in operator, whatever user it names")
		verif_assert(other.Authenticated, "a rejected handshake leaves logged-in operators authenticated")
	}
	verif_no_locks_held("handshake leaves no client mutex held")
	verif_witness()
}

// H_c06_window: while a connection has not authenticated yet (it is in the client table from
// the moment of the upgrade), a broadcast writes nothing to it.
func H_c06_window() {
	t := verifNewTeamserver(true)
	fresh := verifAddClient(t, "fresh", false)
	op := verifAddClient(t, "op", true)
	pk := verifMarker(3)
	pk.Head.Event = int(nondet_i32("event-code"))
	t.EventBroadcast([]string{"", "op", "fresh"}[nondet_choice("except", 3)], pk)
	verif_assert(len(verifFramesTo(fresh)) == 0, "no live broadcast reaches a connection that has not authenticated")
	_ = op
	verif_witness()
}
