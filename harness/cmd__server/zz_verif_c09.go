package server

import (
	"Havoc/pkg/agent"
	"Havoc/pkg/common/parser"
	"Havoc/pkg/packager"
)

// two of the ids have the top bit set (32-bit agent ids are arbitrary)
var verifIDs = []string{"00000011", "80000022", "000000a3", "900000b4", "000000c5"}
var verifIDn = []int{0x11, 0x80000022, 0xa3, 0x900000b4, 0xc5}

// verifForest builds a forest over 3 agents from a parent vector (parent[i] in {-1,0,1,2}),
// with links lists and TS_Links rows consistent with it (invariant I).
func verifForest(t *Teamserver, parent []int) []*agent.Agent {
	ag := make([]*agent.Agent, len(parent))
	for i := range ag {
		ag[i] = agent.VerifNewAgent(verifIDs[i])
	}
	for i, p := range parent {
		if p >= 0 {
			ag[i].Pivots.Parent = ag[p]
			ag[p].Pivots.Links = append(ag[p].Pivots.Links, ag[i])
			verifDBSeedLink(verifIDn[p], verifIDn[i])
		}
	}
	t.Agents.Agents = ag
	return ag
}

func verifAcyclic(parent []int) bool {
	for i := range parent {
		k, steps := i, 0
		for parent[k] >= 0 {
			k = parent[k]
			steps++
			if steps > len(parent) {
				return false
			}
		}
	}
	return true
}

// verifCheckForest asserts invariant I on the in-memory forest and the link table.
func verifCheckForest(ag []*agent.Agent, what string) {
	for i, a := range ag {
		// a is in some Links list exactly when that list's owner is its parent; at most once
		count := 0
		for _, p := range ag {
			for _, l := range p.Pivots.Links {
				if l == a {
					count++
					verif_assert(a.Pivots.Parent == p, what+": an agent is listed among a parent's links only if that parent is its parent")
				}
			}
		}
		if a.Pivots.Parent != nil {
			verif_assert(count == 1, what+": an agent with a parent is listed exactly once among that parent's links")
		} else {
			verif_assert(count == 0, what+": an agent without a parent is in nobody's links")
		}
		// no agent is its own ancestor
		k, steps := a, 0
		for k.Pivots.Parent != nil {
			k = k.Pivots.Parent
			steps++
			verif_assert(steps <= len(ag), what+": no agent is its own ancestor")
			if steps > len(ag) {
				break
			}
		}
		_ = i
	}
	// the persisted table holds exactly the live links
	live := 0
	for i, a := range ag {
		if a.Pivots.Parent != nil {
			live++
			pi := -1
			for j, p := range ag {
				if p == a.Pivots.Parent {
					pi = j
				}
			}
			if pi >= 0 {
				verif_assert(verifDBHasLink(verifIDn[pi], verifIDn[i]), what+": every live link has its TS_Links row")
			}
		}
	}
	verif_assert(verifDBLinkCount(verifIDn[:len(ag)]) == live, what+": TS_Links holds no row for a link that is gone")
}

// H_c09_died: Died / UnlinkFromAll on an agent with k = 0..2 links (and possibly a parent)
// completes and detaches all of them.
func H_c09_died() {
	n := 3 + nondet_choice("agents", 3) // 3, 4 or 5 registered agents
	parent := make([]int, n)
	if n == 3 {
		for i := range parent {
			parent[i] = nondet_choice("parent", 4) - 1
			verif_assume(parent[i] != i)
		}
	} else {
		// larger universes: stars and chains below agent 0 (an agent with up to 4 links)
		parent[0] = -1
		for i := 1; i < n; i++ {
			parent[i] = nondet_choice("parent-star", 2) * (i - 1) // 0 = child of agent 0, else child of the previous agent
			if parent[i] != 0 {
				parent[i] = i - 1
			}
		}
	}
	verif_assume(verifAcyclic(parent))
	t := verifNewTeamserver(true)
	ag := verifForest(t, parent)
	verifCheckForest(ag, "pre-state")
	victim := nondet_choice("victim", n)
	// an agent that a pivot disconnect has already reported inactive keeps its own links
	ag[victim].Active = !nondet_bool("victim-already-inactive")
	t.Died(ag[victim])
	verif_assert(!ag[victim].Active, "a dead agent is marked inactive")
	verif_assert(len(ag[victim].Pivots.Links) == 0, "removing an agent detaches all of its links")
	for _, p := range ag {
		for _, l := range p.Pivots.Links {
			verif_assert(l != ag[victim], "a dead agent is removed from its parent's links")
		}
	}
	verifCheckForest(ag, "after death")
	for _, other := range verifIDn[:n] {
		verif_assert(!verifDBHasLink(verifIDn[victim], other), "no TS_Links row keeps the dead agent as parent")
		verif_assert(!verifDBHasLink(other, verifIDn[victim]), "no TS_Links row keeps the dead agent as child")
	}
	verif_witness()
}

// H_c09_markdead: the operator's mark dead / alive event goes through the same path.
func H_c09_markdead() {
	parent := make([]int, 3)
	for i := range parent {
		parent[i] = nondet_choice("parent", 4) - 1
		verif_assume(parent[i] != i)
	}
	verif_assume(verifAcyclic(parent))
	t := verifNewTeamserver(true)
	ag := verifForest(t, parent)
	victim := nondet_choice("victim", 3)
	ag[victim].Active = !nondet_bool("victim-already-inactive")
	marks := []string{"Dead", "Alive", "Other"}
	pk := packager.Package{}
	pk.Head.Event = packager.Type.Session.Type
	pk.Body.SubEvent = packager.Type.Session.MarkAsDead
	pk.Body.Info = map[string]any{"AgentID": verifIDs[victim], "Marked": marks[nondet_choice("mark", 3)]}
	mark := pk.Body.Info["Marked"].(string)
	t.DispatchEvent(pk)
	verif_assert(len(ag) == 3, "session table unchanged in size")
	verifCheckForest(ag, "after the mark event")
	if mark == "Dead" {
		verif_assert(len(ag[victim].Pivots.Links) == 0, "an agent marked dead keeps no links (also one that was inactive already)")
		verif_assert(ag[victim].Pivots.Parent == nil, "an agent marked dead keeps no parent")
	}
	verif_no_locks_held("mark event leaves no client mutex held")
	verif_witness()
}

func verifBE(v uint32) []byte { return []byte{byte(v >> 24), byte(v >> 16), byte(v >> 8), byte(v)} }

// H_c09_event: one pivot event (connect naming an existing agent incl. the sender itself or
// an ancestor / connect of an unknown agent whose registration is too short / disconnect /
// exit / kill date) from any forest over 3 agents; the forest invariant must hold afterwards.
func H_c09_event() {
	parent := make([]int, 3)
	for i := range parent {
		parent[i] = nondet_choice("parent", 4) - 1
		verif_assume(parent[i] != i)
	}
	verif_assume(verifAcyclic(parent))
	t := verifNewTeamserver(true)
	ag := verifForest(t, parent)
	sender := nondet_choice("sender", 3)
	rid := uint32(42)
	ag[sender].Tasks = append(ag[sender].Tasks, agent.Job{RequestID: rid})
	var cmd uint32
	var body []byte
	ev := nondet_choice("event", 5)
	switch ev {
	case 0: // SMB connect naming an existing agent (id chosen by the solver among all 32-bit values)
		id := nondet_u32("named-id")
		cmd = agent.COMMAND_PIVOT
		demon := append(verifBE(0), verifBE(agent.DEMON_MAGIC_VALUE)...)
		demon = append(demon, verifBE(id)...)
		demon = append(demon, verifBE(agent.DEMON_INIT)...)
		demon = append(demon, verifBE(0)...)
		demon = append(demon, nondet_bytes("reg", nondet_choice("reglen", 3))...)
		body = append(verifBE(agent.DEMON_PIVOT_SMB_CONNECT), verifBE(1)...)
		body = append(body, verifBE(uint32(len(demon)))...)
		body = append(body, demon...)
	case 1: // SMB disconnect naming any id
		cmd = agent.COMMAND_PIVOT
		body = append(verifBE(agent.DEMON_PIVOT_SMB_DISCONNECT), verifBE(nondet_u32("success"))...)
		body = append(body, verifBE(nondet_u32("named-id"))...)
	case 2:
		cmd = agent.COMMAND_EXIT
		body = verifBE(nondet_u32("method"))
	case 3:
		cmd = agent.COMMAND_KILL_DATE
	case 4: // arbitrary short pivot callback
		cmd = agent.COMMAND_PIVOT
		body = nondet_bytes("body", nondet_choice("L", 13))
	}
	ag[sender].TaskDispatch(rid, cmd, parser.NewParser(body), t)
	verifCheckForest(t.Agents.Agents[:3], "after the event")
	verif_no_locks_held("pivot event leaves no mutex held")
	verif_witness()
}
