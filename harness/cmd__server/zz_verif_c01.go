package server

import (
	"Havoc/pkg/service"
)

// H_c01_service_lookup: the third-party-agent lookup that every non-Demon request goes
// through, with and without a Service block in the profile (Teamserver.Service == nil).
func H_c01_service_lookup() {
	t := verifNewTeamserver(true)
	switch nondet_choice("service-block", 3) {
	case 1:
		t.Service = &service.Service{}
	case 2:
		t.Service = &service.Service{}
		t.Service.Agents = append(t.Service.Agents, &service.AgentService{Name: "x", MagicValue: "0x41414141"})
		// a registration may spell its magic value with upper-case hex digits or a 0X prefix
		switch nondet_choice("second-registration", 4) {
		case 1:
			t.Service.Agents = append(t.Service.Agents, &service.AgentService{Name: "y", MagicValue: "0xdeadc0de"})
		case 2:
			t.Service.Agents = append(t.Service.Agents, &service.AgentService{Name: "y", MagicValue: "0xDEADC0DE"})
		case 3:
			t.Service.Agents = append(t.Service.Agents, &service.AgentService{Name: "y", MagicValue: "0XDEADC0DE"})
		}
	}
	var magic int
	switch nondet_choice("magic-kind", 4) {
	case 0:
		magic = int(nondet_u32("magic"))
	case 1:
		magic = 0x41414141
	case 2:
		magic = 0xdeadc0de
	case 3:
		magic = 0xdeadbeef
	}
	exists := t.ServiceAgentExist(magic)
	a := t.ServiceAgent(magic)
	verif_assert(exists == (a != nil), "ServiceAgentExist agrees with ServiceAgent")
	if t.Service == nil {
		verif_assert(!exists, "without a Service block no magic value is a registered third-party agent")
	}
	verif_witness()
}
