package server

import (
	"Havoc/pkg/service"
)

// H_c01_service_lookup: the third-party-agent lookup that every non-Demon request goes
// through, with and without a Service block in the profile (Teamserver.Service == nil).
func H_c01_service_lookup() {
	t := verifNewTeamserver(true)
	switch nondet_choice("service-block", 3) {
	case 1:
		t.Service = &service.Service{}
	case 2:
		t.Service = &service.Service{}
		t.Service.Agents = append(t.Service.Agents, &service.AgentService{Name: "x", MagicValue: "0x41414141"})
	}
	magic := int(nondet_u32("magic"))
	exists := t.ServiceAgentExist(magic)
	a := t.ServiceAgent(magic)
	verif_assert(exists == (a != nil), "ServiceAgentExist agrees with ServiceAgent")
	if t.Service == nil {
		verif_assert(!exists, "without a Service block no magic value is a registered third-party agent")
	}
	verif_witness()
}
