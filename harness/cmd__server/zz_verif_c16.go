package server

import (
	"Havoc/pkg/profile"
	"errors"

	"Havoc/pkg/db"
	"Havoc/pkg/handlers"
	"Havoc/pkg/packager"
)

// structs.Map (reflection) for the three listener config types: the fields the registry
// code reads afterwards.
//
//verif:stub github.com/fatih/structs.Map
func verifStubStructsMap(s interface{}) map[string]interface{} {
	switch c := s.(type) {
	case handlers.SMBConfig:
		return map[string]interface{}{"Name": c.Name, "PipeName": c.PipeName}
	case handlers.ExternalConfig:
		return map[string]interface{}{"Name": c.Name, "Endpoint": c.Endpoint}
	case handlers.HTTPConfig:
		return map[string]interface{}{"Name": c.Name}
	}
	return map[string]interface{}{}
}

// pkg/db/listeners.go ListenerAdd: the Name column is UNIQUE.
//
//verif:stub (*Havoc/pkg/db.DB).ListenerAdd
func verifStubDBListenerAdd(d *db.DB, name, protocol, config string) error {
	for _, n := range verifDBListeners {
		if n == name {
			return errors.New("UNIQUE constraint failed: TS_Listeners.Name")
		}
	}
	verifDBListeners = append(verifDBListeners, name)
	return nil
}

func verifAdvertised(t *Teamserver) []string {
	var out []string
	for _, e := range t.EventsList {
		if e.Head.Event == packager.Type.Listener.Type {
			if e.Body.SubEvent == packager.Type.Listener.Add {
				if n, ok := e.Body.Info["Name"].(string); ok {
					out = append(out, n)
				}
			}
		}
	}
	return out
}

func verifSameSet(a, b []string) bool {
	if len(a) != len(b) {
		return false
	}
	for _, x := range a {
		found := false
		for _, y := range b {
			if x == y {
				found = true
			}
		}
		if !found {
			return false
		}
	}
	return true
}

// H_c16_listener_steps: 1..3 (thorough 1..5) add/remove operations over the names {a, b} and the kinds SMB and
// External plus External listeners registered by a service connection (duplicates and unknown names included): listener names stay unique, and the
// running set, the persisted set and the set advertised to operators are the same set; a
// removed External listener's endpoint is gone.
func H_c16_listener_steps() {
	t := verifNewTeamserver(true)
	names := []string{"a", "b"}
	steps := 1 + nondet_choice("steps", verif_bound("listener-steps-max", 3, 5))
	svc := map[string]bool{} // listeners registered by a service connection (not persisted, not advertised)
	for s := 0; s < steps; s++ {
		name := names[nondet_choice("name", 2)]
		switch nondet_choice("op", 4) {
		case 3:
			taken := false
			for _, l := range t.Listeners {
				if l.Name == name {
					taken = true
				}
			}
			err := t.ListenerServiceExc2Add(name, "sep-"+name, nil)
			if taken {
				verif_assert(err != nil, "a service listener with a name that is taken is refused")
			} else {
				verif_assert(err == nil, "a service listener with a free name is accepted")
				svc[name] = true
			}
		case 0:
			t.ListenerStart(handlers.LISTENER_PIVOT_SMB, handlers.SMBConfig{Name: name, PipeName: "p" + name})
		case 1:
			// endpoint spellings: plain for "a", with a leading slash for "b"
			ep := "ep-" + name
			if name == "b" {
				ep = "/ep-" + name
			}
			t.ListenerStart(handlers.LISTENER_EXTERNAL, handlers.ExternalConfig{Name: name, Endpoint: ep})
		case 2:
			t.ListenerRemove(name)
		}
		var running, builtin []string
		for i, l := range t.Listeners {
			running = append(running, l.Name)
			for j := 0; j < i; j++ {
				verif_assert(t.Listeners[j].Name != l.Name, "listener names stay unique")
			}
		}
		for n := range svc {
			still := false
			for _, r := range running {
				if r == n {
					still = true
				}
			}
			if !still {
				delete(svc, n)
			}
		}
		for _, r := range running {
			if !svc[r] {
				builtin = append(builtin, r)
			}
		}
		verif_assert(verifSameSet(builtin, verifDBListeners), "running built-in listeners = persisted listeners")
		verif_assert(verifSameSet(builtin, verifAdvertised(t)), "running built-in listeners = listeners advertised to (new) operators")
		for _, ep := range t.Endpoints {
			owner := false
			for _, l := range t.Listeners {
				if ext, ok := l.Config.(*handlers.External); ok {
					if ext.Config.Endpoint == ep.Endpoint {
						owner = true
					}
				}
			}
			verif_assert(owner, "no endpoint outlives its External listener")
		}
	}
	verif_witness()
}

// H_c16_listener_edit: an edit of a running HTTP listener applies to the next request: after
// ListenerEdit the running listener checks requests against exactly the edited user agent,
// header list and URI list - also when the edit empties a list that was not empty - and an
// edit that names another listener changes nothing.
func H_c16_listener_edit() {
	t := verifNewTeamserver(true)
	trust := nondet_bool("behind-redirector")
	t.Profile.Config.Demon = &profile.Demon{TrustXForwardedFor: trust}
	run := &handlers.HTTP{}
	run.Config.BehindRedir = trust
	run.Config.Name = "w"
	run.Config.UserAgent = "UA1"
	run.Config.Headers = []string{"X-A: 1"}
	run.Config.Uris = []string{"/a", "/b"}
	other := &handlers.HTTP{}
	other.Config.Name = "v"
	other.Config.Uris = []string{"/keep"}
	other.Config.BehindRedir = trust
	t.Listeners = []*Listener{{Name: "w", Type: handlers.LISTENER_HTTP, Config: run}, {Name: "v", Type: handlers.LISTENER_HTTP, Config: other}}
	edit := handlers.HTTPConfig{Name: []string{"w", "v", "zz"}[nondet_choice("edited-name", 3)]}
	edit.UserAgent = []string{"", "UA2"}[nondet_choice("new-user-agent", 2)]
	switch nondet_choice("new-headers", 3) {
	case 1:
		edit.Headers = []string{"X-B: 2"}
	case 2:
		edit.Headers = []string{"X-B: 2", "X-C: 3"}
	}
	switch nondet_choice("new-uris", 3) {
	case 1:
		edit.Uris = []string{"/c"}
	case 2:
		edit.Uris = []string{"/c", "/d"}
	}
	t.ListenerEdit(handlers.LISTENER_HTTP, edit)
	same := func(a, b []string) bool {
		if len(a) != len(b) {
			return false
		}
		for i := range a {
			if a[i] != b[i] {
				return false
			}
		}
		return true
	}
	target := map[string]*handlers.HTTP{"w": run, "v": other}[edit.Name]
	if target != nil {
		verif_assert(target.Config.UserAgent == edit.UserAgent, "the edited user agent applies to the next request")
		verif_assert(same(target.Config.Headers, edit.Headers), "the edited header list applies to the next request (an emptied list too)")
		verif_assert(same(target.Config.Uris, edit.Uris), "the edited URI list applies to the next request (an emptied list too)")
	}
	if edit.Name != "w" {
		verif_assert(run.Config.UserAgent == "UA1", "an edit of another listener leaves this one alone (user agent)")
		verif_assert(same(run.Config.Uris, []string{"/a", "/b"}), "an edit of another listener leaves this one alone (URIs)")
	}
	if edit.Name != "v" {
		verif_assert(same(other.Config.Uris, []string{"/keep"}), "an edit of another listener leaves this one alone")
	}
	verif_assert(run.Config.BehindRedir == trust, "after an edit the listener trusts X-Forwarded-For exactly as the profile says")
	verif_assert(other.Config.BehindRedir == trust, "after an edit the other listener trusts X-Forwarded-For exactly as the profile says")
	verif_assert(len(t.Listeners) == 2, "an edit neither adds nor removes listeners")
	verif_witness()
}
