package server

import (
	"errors"

	"Havoc/pkg/db"
	"Havoc/pkg/handlers"
	"Havoc/pkg/packager"
)

// structs.Map (reflection) for the three listener config types: the fields the registry
// code reads afterwards.
//
//verif:stub github.com/fatih/structs.Map
func verifStubStructsMap(s interface{}) map[string]interface{} {
	switch c := s.(type) {
	case handlers.SMBConfig:
		return map[string]interface{}{"Name": c.Name, "PipeName": c.PipeName}
	case handlers.ExternalConfig:
		return map[string]interface{}{"Name": c.Name, "Endpoint": c.Endpoint}
	case handlers.HTTPConfig:
		return map[string]interface{}{"Name": c.Name}
	}
	return map[string]interface{}{}
}

// pkg/db/listeners.go ListenerAdd: the Name column is UNIQUE.
//
//verif:stub (*Havoc/pkg/db.DB).ListenerAdd
func verifStubDBListenerAdd(d *db.DB, name, protocol, config string) error {
	for _, n := range verifDBListeners {
		if n == name {
			return errors.New("UNIQUE constraint failed: TS_Listeners.Name")
		}
	}
	verifDBListeners = append(verifDBListeners, name)
	return nil
}

func verifAdvertised(t *Teamserver) []string {
	var out []string
	for _, e := range t.EventsList {
		if e.Head.Event == packager.Type.Listener.Type {
			if e.Body.SubEvent == packager.Type.Listener.Add {
				if n, ok := e.Body.Info["Name"].(string); ok {
					out = append(out, n)
				}
			}
		}
	}
	return out
}

func verifSameSet(a, b []string) bool {
	if len(a) != len(b) {
		return false
	}
	for _, x := range a {
		found := false
		for _, y := range b {
			if x == y {
				found = true
			}
		}
		if !found {
			return false
		}
	}
	return true
}

// H_c16_listener_steps: 1..3 (thorough 1..5) add/remove operations over the names {a, b} and the kinds SMB and
// External plus External listeners registered by a service connection (duplicates and unknown names included): listener names stay unique, and the
// running set, the persisted set and the set advertised to operators are the same set; a
// removed External listener's endpoint is gone.
func H_c16_listener_steps() {
	t := verifNewTeamserver(true)
	names := []string{"a", "b"}
	steps := 1 + nondet_choice("steps", verif_bound("listener-steps-max", 3, 5))
	svc := map[string]bool{} // listeners registered by a service connection (not persisted, not advertised)
	for s := 0; s < steps; s++ {
		name := names[nondet_choice("name", 2)]
		switch nondet_choice("op", 4) {
		case 3:
			taken := false
			for _, l := range t.Listeners {
				if l.Name == name {
					taken = true
				}
			}
			err := t.ListenerServiceExc2Add(name, "sep-"+name, nil)
			if taken {
				verif_assert(err != nil, "a service listener with a name that is taken is refused")
			} else {
				verif_assert(err == nil, "a service listener with a free name is accepted")
				svc[name] = true
			}
		case 0:
			t.ListenerStart(handlers.LISTENER_PIVOT_SMB, handlers.SMBConfig{Name: name, PipeName: "p" + name})
		case 1:
			t.ListenerStart(handlers.LISTENER_EXTERNAL, handlers.ExternalConfig{Name: name, Endpoint: "ep-" + name})
		case 2:
			t.ListenerRemove(name)
		}
		var running, builtin []string
		for i, l := range t.Listeners {
			running = append(running, l.Name)
			for j := 0; j < i; j++ {
				verif_assert(t.Listeners[j].Name != l.Name, "listener names stay unique")
			}
		}
		for n := range svc {
			still := false
			for _, r := range running {
				if r == n {
					still = true
				}
			}
			if !still {
				delete(svc, n)
			}
		}
		for _, r := range running {
			if !svc[r] {
				builtin = append(builtin, r)
			}
		}
		verif_assert(verifSameSet(builtin, verifDBListeners), "running built-in listeners = persisted listeners")
		verif_assert(verifSameSet(builtin, verifAdvertised(t)), "running built-in listeners = listeners advertised to (new) operators")
		for _, ep := range t.Endpoints {
			owner := false
			for _, l := range t.Listeners {
				if ext, ok := l.Config.(*handlers.External); ok {
					if ext.Config.Endpoint == ep.Endpoint {
						owner = true
					}
				}
			}
			verif_assert(owner, "no endpoint outlives its External listener")
		}
	}
	verif_witness()
}
