package server

// Environment for the cmd/server harnesses. Inside gosx the database, the websocket
// connection, the JSON encoder/decoder and SHA3 are redirected (//verif:stub) to the models
// below; every one is listed in the evidence when hit.

import (
	"encoding/json"
	"errors"
	"hash"
	"os"

	"Havoc/pkg/agent"
	"Havoc/pkg/db"
	"Havoc/pkg/logr"
	"Havoc/pkg/packager"
	"Havoc/pkg/profile"

	"github.com/gorilla/websocket"
)

// ---------------------------------------------------------------- database model

type verifLink struct{ Parent, Child int }

var (
	verifDBLinks     []verifLink
	verifDBListeners []string
	verifDBAgentUpd  int
	verifDBFail      bool
)

func verifDBReset() {
	verifDBLinks = nil
	verifDBListeners = nil
	verifDBAgentUpd = 0
	verifDBFail = false
}

// native replay uses a real SQLite database in a temp directory instead of the model
var verifRealDB *db.DB

func verifNewDB() *db.DB {
	if verif_symbolic() {
		return new(db.DB)
	}
	dir, err := os.MkdirTemp("", "verifdb")
	if err != nil {
		panic(err)
	}
	d, err := db.DatabaseNew(dir + "/ts.db")
	if err != nil {
		panic(err)
	}
	verifRealDB = d
	return d
}

// verifDBSeedLink puts a link row into the pre-state.
func verifDBSeedLink(p, c int) {
	if verif_symbolic() {
		verifDBLinks = append(verifDBLinks, verifLink{p, c})
		return
	}
	verifRealDB.LinkAdd(p, c)
}

// verifDBLinkCount counts TS_Links rows whose parent is one of the given ids.
func verifDBLinkCount(ids []int) int {
	if verif_symbolic() {
		return len(verifDBLinks)
	}
	n := 0
	for _, id := range ids {
		n += len(verifRealDB.LinksOf(id))
	}
	return n
}

func verifDBHasLink(p, c int) bool {
	if !verif_symbolic() {
		return verifRealDB.LinkExist(p, c)
	}
	for _, l := range verifDBLinks {
		if l.Parent == p {
			if l.Child == c {
				return true
			}
		}
	}
	return false
}

// pkg/db/links.go LinkAdd: INSERT unless the pair exists.
//
//verif:stub (*Havoc/pkg/db.DB).LinkAdd
func verifStubLinkAdd(d *db.DB, parent int, child int) error {
	if verifDBHasLink(parent, child) {
		return errors.New("link already exists")
	}
	verifDBLinks = append(verifDBLinks, verifLink{parent, child})
	return nil
}

// pkg/db/links.go LinkRemove: DELETE WHERE ParentAgentID = ? AND LinkAgentID = ?
//
//verif:stub (*Havoc/pkg/db.DB).LinkRemove
func verifStubLinkRemove(d *db.DB, parent int, child int) error {
	var out []verifLink
	for _, l := range verifDBLinks {
		if l.Parent == parent {
			if l.Child == child {
				continue
			}
		}
		out = append(out, l)
	}
	verifDBLinks = out
	return nil
}

//verif:stub (*Havoc/pkg/db.DB).AgentUpdate
func verifStubAgentUpdate(d *db.DB, a *agent.Agent) error {
	verifDBAgentUpd++
	return nil
}

//verif:stub (*Havoc/pkg/db.DB).AgentAdd
func verifStubAgentAdd(d *db.DB, a *agent.Agent) error { return nil }

//verif:stub (*Havoc/pkg/db.DB).ListenerRemove
func verifStubListenerRemove(d *db.DB, name string) error {
	if verifDBFail {
		return errors.New("verif: db failure")
	}
	var out []string
	for _, n := range verifDBListeners {
		if n != name {
			out = append(out, n)
		}
	}
	verifDBListeners = out
	return nil
}

// ---------------------------------------------------------------- websocket model

type verifFrame struct {
	Conn *websocket.Conn
	Pk   packager.Package
}

var (
	verifFrames     []verifFrame          // every frame written, in order
	verifLastEnc    packager.Package      // package most recently passed to the JSON encoder
	verifConnFail   map[*websocket.Conn]int // remaining successful writes before the transport fails (-1 = never)
	verifWriteFault bool                  // each write may fail nondeterministically
	verifIncoming   []packager.Package    // packages "received" (image of json.Unmarshal on arbitrary text)
	verifReadErr    error
	verifReadIs1006 bool  // the read error is a websocket close error 1006 (abnormal closure)
	verifCloseErr   error // what closing a connection reports (nil: success)
	verifClosed     []*websocket.Conn
	verifInMutex    bool
)

func verifWSReset() {
	verifFrames = nil
	verifConnFail = map[*websocket.Conn]int{}
	verifWriteFault = false
	verifIncoming = nil
	verifReadErr = errors.New("verif: connection closed")
	verifReadIs1006 = false
	verifCloseErr = nil
	verifClosed = nil
}

//verif:stub (*encoding/json.Encoder).Encode
func verifStubEncode(e *json.Encoder, v any) error {
	if pk, ok := v.(packager.Package); ok {
		verifLastEnc = pk
	}
	return nil
}

//verif:stub (*github.com/gorilla/websocket.Conn).WriteMessage
func verifStubWriteMessage(c *websocket.Conn, messageType int, data []byte) error {
	if n, ok := verifConnFail[c]; ok {
		if n == 0 {
			return errors.New("verif: use of closed network connection")
		}
		if n > 0 {
			verifConnFail[c] = n - 1
		}
	}
	if verifWriteFault {
		if nondet_bool("ws-write-fails") {
			return errors.New("verif: write failed")
		}
	}
	verifFrames = append(verifFrames, verifFrame{Conn: c, Pk: verifLastEnc})
	return nil
}

//verif:stub (*github.com/gorilla/websocket.Conn).ReadMessage
func verifStubReadMessage(c *websocket.Conn) (int, []byte, error) {
	if len(verifIncoming) == 0 {
		return 0, nil, verifReadErr
	}
	return websocket.TextMessage, []byte{}, nil
}

//verif:stub (*github.com/gorilla/websocket.Conn).Close
func verifStubConnClose(c *websocket.Conn) error {
	verifClosed = append(verifClosed, c)
	return verifCloseErr
}

//verif:stub github.com/gorilla/websocket.IsCloseError
func verifStubIsCloseError(err error, codes ...int) bool {
	if err == verifReadErr {
		return verifReadIs1006
	}
	return false
}

// packager.CreatePackage = json.Unmarshal of arbitrary text into a Package: the harness
// supplies the resulting (arbitrary, well-typed) Package.
//
//verif:stub (Havoc/pkg/packager.Packager).CreatePackage
func verifStubCreatePackage(p packager.Packager, jsonObject string) packager.Package {
	if len(verifIncoming) == 0 {
		return packager.Package{}
	}
	pk := verifIncoming[0]
	verifIncoming = verifIncoming[1:]
	return pk
}

// ---------------------------------------------------------------- SHA3 as an injective digest

type verifHash struct{ data []byte }

func (h *verifHash) Write(p []byte) (int, error) { h.data = append(h.data, p...); return len(p), nil }
func (h *verifHash) Sum(b []byte) []byte {
	// injective on inputs of up to 30 bytes: [len][bytes][zero padding]
	out := make([]byte, 32)
	out[0] = byte(len(h.data))
	for i := 0; i < len(h.data) && i < 31; i++ {
		out[1+i] = h.data[i]
	}
	return append(b, out...)
}
func (h *verifHash) Reset()         { h.data = nil }
func (h *verifHash) Size() int      { return 32 }
func (h *verifHash) BlockSize() int { return 136 }

//verif:stub golang.org/x/crypto/sha3.New256
func verifStubSha3New256() hash.Hash { return &verifHash{} }

// verifDigestHex mirrors what an honest client sends: hex of the digest of the password.
func verifDigestHex(pw string) string {
	h := verifStubSha3New256()
	h.Write([]byte(pw))
	const hexd = "0123456789abcdef"
	var out []byte
	for _, c := range h.Sum(nil) {
		out = append(out, hexd[c>>4], hexd[c&15])
	}
	return string(out)
}

// ---------------------------------------------------------------- teamserver construction

func verifNewTeamserver(withOperators bool) *Teamserver {
	verifDBReset()
	verifWSReset()
	t := &Teamserver{}
	if verif_symbolic() {
		logr.LogrInstance = &logr.Logr{Path: "/L", AgentPath: "/L/agents", ListenerPath: "/L/listener", ServerPath: "/L"}
	} else {
		dir, _ := os.MkdirTemp("", "verifloot")
		logr.LogrInstance = logr.NewLogr(dir, "loot")
	}
	logr.VerifFSReset(false)
	t.DB = verifNewDB()
	t.Profile = &profile.Profile{}
	t.Profile.Config.Demon = &profile.Demon{}
	if withOperators {
		t.Profile.Config.Operators = &profile.OperatorsBlock{Users: []profile.UsersBlock{
			{Name: "op1", Password: "pw1"},
			{Name: "op2", Password: "pw2"},
		}}
	}
	return t
}

func verifAddClient(t *Teamserver, id string, authenticated bool) *Client {
	c := &Client{ClientID: id, Connection: new(websocket.Conn), Packager: packager.NewPackager(), Authenticated: authenticated}
	if authenticated {
		c.Username = "user-" + id
	}
	t.Clients.Store(id, c)
	return c
}

func verifFramesTo(c *Client) []packager.Package {
	var out []packager.Package
	for _, f := range verifFrames {
		if f.Conn == c.Connection {
			out = append(out, f.Pk)
		}
	}
	return out
}
