package server

import (
	"Havoc/pkg/agent"
)

// H_c03_session_lookup: a session is found by its id - by AgentExist and by AgentInstance
// alike - exactly when it is in the session table, whether it is alive or marked dead and
// whatever its id (ids with the top bit set included): a dead session's id is never treated
// as unknown, so a second session with the same id cannot be registered next to it.
func H_c03_session_lookup() {
	t := verifNewTeamserver(true)
	n := 1 + nondet_choice("sessions", 3)
	for i := 0; i < n; i++ {
		a := agent.VerifNewAgent(verifIDs[i])
		a.Active = nondet_bool("active")
		t.Agents.Agents = append(t.Agents.Agents, a)
	}
	id := nondet_u32("id")
	registered := false
	for i := 0; i < n; i++ {
		if int(id) == verifIDn[i] {
			registered = true
		}
	}
	exists := t.AgentExist(int(id))
	inst := t.AgentInstance(int(id))
	verif_assert(exists == registered, "AgentExist is true exactly for the ids in the session table (alive or dead)")
	verif_assert((inst != nil) == registered, "AgentInstance finds exactly the ids in the session table")
	if inst != nil {
		found := false
		for i := 0; i < n; i++ {
			if int(id) == verifIDn[i] {
				found = t.Agents.Agents[i] == inst
			}
		}
		verif_assert(found, "AgentInstance returns the session registered under that id")
	}
	verif_witness()
}
