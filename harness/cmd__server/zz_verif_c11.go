package server

import (
	"Havoc/pkg/agent"
	"Havoc/pkg/packager"
)

func verifMarker(k int) packager.Package {
	pk := packager.Package{}
	pk.Head.Event = packager.Type.Chat.Type
	pk.Body.SubEvent = 1000 + k
	pk.Body.Info = map[string]any{"k": k}
	return pk
}

// H_c11_append: one-shot events are never retained, events with code 0 are ignored, all
// others are retained exactly once, at the tail.
func H_c11_append() {
	t := verifNewTeamserver(true)
	n := nondet_choice("n", 4)
	for i := 0; i < n; i++ {
		t.EventsList = append(t.EventsList, verifMarker(i))
	}
	ev := verifMarker(99)
	ev.Head.Event = int(nondet_i32("event-code"))
	ev.Head.OneTime = []string{"", "true", "false", "TRUE"}[nondet_choice("onetime", 4)]
	t.EventAppend(ev)
	keep := true
	if ev.Head.Event == 0 {
		keep = false
	}
	if ev.Head.OneTime == "true" {
		keep = false
	}
	want := n
	if keep {
		want = n + 1
	}
	verif_assert(len(t.EventsList) == want, "an event is retained exactly once unless it is one-shot or has code 0")
	for i := 0; i < n; i++ {
		verif_assert(t.EventsList[i].Body.SubEvent == 1000+i, "earlier events keep their order")
	}
	if keep {
		if len(t.EventsList) == n+1 {
			verif_assert(t.EventsList[n].Body.SubEvent == 1099, "the new event is recorded at the tail")
		}
	}
	verif_witness()
}

// H_c11_replay: a newly authenticated operator receives every retained event in recorded
// order, then exactly the live sessions.
func H_c11_replay() {
	t := verifNewTeamserver(true)
	n := nondet_choice("n", 4)
	for i := 0; i < n; i++ {
		t.EventsList = append(t.EventsList, verifMarker(i))
	}
	na := nondet_choice("agents", 3)
	live := 0
	for i := 0; i < na; i++ {
		a := agent.VerifNewAgent(verifIDs[i])
		a.Active = nondet_bool("active")
		if a.Active {
			live++
		}
		t.Agents.Agents = append(t.Agents.Agents, a)
	}
	c := verifAddClient(t, "new", true)
	other := verifAddClient(t, "old", true)
	t.SendAllPackagesToNewClient("new")
	got := verifFramesTo(c)
	verif_assert(len(got) == n+live, "replay = every retained event + every live session")
	for i := 0; i < n; i++ {
		if i < len(got) {
			verif_assert(got[i].Body.SubEvent == 1000+i, "retained events are replayed in the order recorded")
		}
	}
	for i := n; i < len(got); i++ {
		verif_assert(got[i].Head.Event == packager.Type.Session.Type, "live sessions follow the retained events")
		verif_assert(got[i].Body.SubEvent == packager.Type.Session.NewSession, "live sessions are announced as new sessions")
	}
	verif_assert(len(verifFramesTo(other)) == 0, "the replay goes to the new operator only")
	verif_no_locks_held("replay leaves no client mutex held")
	verif_witness()
}

// H_c11_fanout: a broadcast reaches every authenticated operator except the excluded one,
// one frame each.
func H_c11_fanout() {
	t := verifNewTeamserver(true)
	n := 1 + nondet_choice("clients", 3)
	ids := []string{"c0", "c1", "c2"}
	var cs []*Client
	for i := 0; i < n; i++ {
		cs = append(cs, verifAddClient(t, ids[i], true))
	}
	except := []string{"", "c0", "c1", "c2", "nobody"}[nondet_choice("except", 5)]
	pk := verifMarker(7)
	pk.Head.Event = int(nondet_i32("event-code"))
	t.EventBroadcast(except, pk)
	for i, c := range cs {
		want := 1
		if ids[i] == except {
			want = 0
		}
		if pk.Head.Event == 0 {
			want = 0
		}
		fr := verifFramesTo(c)
		verif_assert(len(fr) == want, "each broadcast reaches every authenticated operator except the excluded one, one frame per event")
		if len(fr) == 1 {
			verif_assert(fr[0].Body.SubEvent == 1007, "the frame carries the broadcast event")
		}
	}
	verif_no_locks_held("broadcast leaves no client mutex held")
	verif_witness()
}

// H_c11_fault: k sends to clients whose transport fails at an arbitrary point; no client
// mutex stays held after any send, so later sends (and broadcasts from agent handling)
// still complete.
func H_c11_fault() {
	t := verifNewTeamserver(true)
	a := verifAddClient(t, "a", true)
	b := verifAddClient(t, "b", true)
	_ = a
	_ = b
	verifWriteFault = true
	k := 2 + nondet_choice("sends", 2)
	for i := 0; i < k; i++ {
		switch nondet_choice("op", 3) {
		case 0:
			t.SendEvent("a", verifMarker(i))
		case 1:
			t.SendEvent("b", verifMarker(i))
		case 2:
			t.EventBroadcast("", verifMarker(i))
		}
		verif_no_locks_held("a failed write must not leave the per-client lock held")
	}
	verif_witness()
}
