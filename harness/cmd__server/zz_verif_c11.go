package server

import (
	"errors"

	"Havoc/pkg/agent"
	"Havoc/pkg/handlers"
	"Havoc/pkg/packager"
)

func verifMarker(k int) packager.Package {
	pk := packager.Package{}
	pk.Head.Event = packager.Type.Chat.Type
	pk.Body.SubEvent = 1000 + k
	pk.Body.Info = map[string]any{"k": k}
	return pk
}

// H_c11_append: one-shot events are never retained, events with code 0 are ignored, all
// others are retained exactly once, at the tail.
func H_c11_append() {
	t := verifNewTeamserver(true)
	n := nondet_choice("n", verif_bound("retained-events-max", 3, 8)+1)
	for i := 0; i < n; i++ {
		t.EventsList = append(t.EventsList, verifMarker(i))
	}
	ev := verifMarker(99)
	ev.Head.Event = int(nondet_i32("event-code"))
	ev.Head.OneTime = []string{"", "true", "false", "TRUE"}[nondet_choice("onetime", 4)]
	t.EventAppend(ev)
	keep := true
	if ev.Head.Event == 0 {
		keep = false
	}
	if ev.Head.OneTime == "true" {
		keep = false
	}
	want := n
	if keep {
		want = n + 1
	}
	verif_assert(len(t.EventsList) == want, "an event is retained exactly once unless it is one-shot or has code 0")
	for i := 0; i < n; i++ {
		verif_assert(t.EventsList[i].Body.SubEvent == 1000+i, "earlier events keep their order")
	}
	if keep {
		if len(t.EventsList) == n+1 {
			verif_assert(t.EventsList[n].Body.SubEvent == 1099, "the new event is recorded at the tail")
		}
	}
	verif_witness()
}

// H_c11_replay: a newly authenticated operator receives every retained event in recorded
// order, then exactly the live sessions.
func H_c11_replay() {
	t := verifNewTeamserver(true)
	n := nondet_choice("n", verif_bound("retained-events-max", 3, 8)+1)
	for i := 0; i < n; i++ {
		t.EventsList = append(t.EventsList, verifMarker(i))
	}
	na := nondet_choice("agents", 3)
	live := 0
	for i := 0; i < na; i++ {
		a := agent.VerifNewAgent(verifIDs[i])
		a.Active = nondet_bool("active")
		if a.Active {
			live++
		}
		t.Agents.Agents = append(t.Agents.Agents, a)
	}
	c := verifAddClient(t, "new", true)
	other := verifAddClient(t, "old", true)
	t.SendAllPackagesToNewClient("new")
	got := verifFramesTo(c)
	verif_assert(len(got) == n+live, "replay = every retained event + every live session")
	for i := 0; i < n; i++ {
		if i < len(got) {
			verif_assert(got[i].Body.SubEvent == 1000+i, "retained events are replayed in the order recorded")
		}
	}
	for i := n; i < len(got); i++ {
		verif_assert(got[i].Head.Event == packager.Type.Session.Type, "live sessions follow the retained events")
		verif_assert(got[i].Body.SubEvent == packager.Type.Session.NewSession, "live sessions are announced as new sessions")
	}
	verif_assert(len(verifFramesTo(other)) == 0, "the replay goes to the new operator only")
	verif_no_locks_held("replay leaves no client mutex held")
	verif_witness()
}

// H_c11_fanout: a broadcast reaches every authenticated operator except the excluded one,
// one frame each.
func H_c11_fanout() {
	t := verifNewTeamserver(true)
	n := 1 + nondet_choice("clients", verif_bound("fanout-clients-max", 3, 5))
	ids := []string{"c0", "c1", "c2", "c3", "c4"}
	var cs []*Client
	for i := 0; i < n; i++ {
		cs = append(cs, verifAddClient(t, ids[i], true))
	}
	except := []string{"", "c0", "c1", "c2", "nobody"}[nondet_choice("except", 5)]
	// one operator's transport may be dead (every write to it fails)
	dead := nondet_choice("dead-client", verif_bound("fanout-clients-max", 3, 5)+1) - 1
	if dead >= 0 {
		if dead < n {
			verifConnFail[cs[dead].Connection] = 0
		}
	}
	pk := verifMarker(7)
	pk.Head.Event = int(nondet_i32("event-code"))
	t.EventBroadcast(except, pk)
	for i, c := range cs {
		want := 1
		if ids[i] == except {
			want = 0
		}
		if i == dead {
			want = 0 // nothing can be written to a dead transport; the others must not suffer
		}
		if pk.Head.Event == 0 {
			want = 0
		}
		fr := verifFramesTo(c)
		verif_assert(len(fr) == want, "each broadcast reaches every authenticated operator except the excluded one, one frame per event")
		if len(fr) == 1 {
			verif_assert(fr[0].Body.SubEvent == 1007, "the frame carries the broadcast event")
		}
	}
	verif_no_locks_held("broadcast leaves no client mutex held")
	verif_witness()
}

// H_c11_fault: k sends to clients whose transport fails at an arbitrary point; no client
// mutex stays held after any send, so later sends (and broadcasts from agent handling)
// still complete.
func H_c11_fault() {
	t := verifNewTeamserver(true)
	a := verifAddClient(t, "a", true)
	b := verifAddClient(t, "b", true)
	_ = a
	_ = b
	verifWriteFault = true
	k := 2 + nondet_choice("sends", verif_bound("fault-sends-extra", 2, 4))
	for i := 0; i < k; i++ {
		switch nondet_choice("op", 3) {
		case 0:
			t.SendEvent("a", verifMarker(i))
		case 1:
			t.SendEvent("b", verifMarker(i))
		case 2:
			t.EventBroadcast("", verifMarker(i))
		}
		verif_no_locks_held("a failed write must not leave the per-client lock held")
	}
	verif_witness()
}

func verifListenerEvent(kind int) packager.Package {
	pk := packager.Package{}
	pk.Head.Event = packager.Type.Listener.Type
	pk.Body.Info = map[string]any{}
	switch kind {
	case 0:
		pk.Body.SubEvent = packager.Type.Listener.Add
		pk.Body.Info["Name"] = "a"
	case 1:
		pk.Body.SubEvent = packager.Type.Listener.Add
		pk.Body.Info["Name"] = "b"
	case 2:
		pk.Body.SubEvent = packager.Type.Listener.Remove
		pk.Body.Info["Name"] = "a"
	case 3:
		pk.Body.SubEvent = packager.Type.Listener.Error
		pk.Body.Info["Name"] = "a"
	default:
		return verifMarker(50)
	}
	return pk
}

// H_c11_listener_prune: removing listener "a" prunes exactly its (first) retained Add record;
// every other retained event - other listeners, earlier Remove/Error records of the same
// name, chat - stays, in order, so a newcomer's replay shows no removed listener.
func H_c11_listener_prune() {
	t := verifNewTeamserver(true)
	k := 1 + nondet_choice("events", verif_bound("prune-events-max", 4, 6))
	var kinds []int
	for i := 0; i < k; i++ {
		kd := nondet_choice("kind", 5)
		kinds = append(kinds, kd)
		t.EventsList = append(t.EventsList, verifListenerEvent(kd))
	}
	smbA := handlers.NewPivotSmb()
	smbA.Config.Name = "a"
	smbB := handlers.NewPivotSmb()
	smbB.Config.Name = "b"
	t.Listeners = []*Listener{{Name: "a", Type: handlers.LISTENER_PIVOT_SMB, Config: smbA}, {Name: "b", Type: handlers.LISTENER_PIVOT_SMB, Config: smbB}}
	verifDBListeners = []string{"a", "b"}
	t.ListenerRemove("a")
	// reference: drop the first Add("a")
	var want []int
	dropped := false
	for _, kd := range kinds {
		if kd == 0 {
			if !dropped {
				dropped = true
				continue
			}
		}
		want = append(want, kd)
	}
	verif_assert(len(t.EventsList) == len(want), "removing a listener prunes exactly one retained record: its Add")
	for i := range want {
		if i < len(t.EventsList) {
			e := t.EventsList[i]
			ref := verifListenerEvent(want[i])
			verif_assert(e.Head.Event == ref.Head.Event, "other retained events keep their place")
			verif_assert(e.Body.SubEvent == ref.Body.SubEvent, "other retained events keep their kind")
			verif_assert(e.Body.Info["Name"] == ref.Body.Info["Name"], "other retained events keep their listener name")
		}
	}
	verif_assert(len(t.Listeners) == 1, "the removed listener leaves the running set")
	verif_witness()
}

// H_c11_disconnect: an operator logs in, sends 0..1 messages, and then its transport dies -
// with a close error 1006 or any other read error, and whether or not closing the dead socket
// itself reports an error. Afterwards the connection is out of the client table, the
// disconnect is recorded as the last event, and a later broadcast reaches the remaining
// operator exactly once and the dead connection not at all.
func H_c11_disconnect() {
	t := verifNewTeamserver(true)
	t.EventsList = append(t.EventsList, verifMarker(1))
	c := verifAddClient(t, "x", false)
	other := verifAddClient(t, "op", true)
	var login packager.Package
	login.Head.Event = packager.Type.InitConnection.Type
	login.Head.User = "op1"
	login.Body.SubEvent = packager.Type.InitConnection.OAuthRequest
	login.Body.Info = map[string]any{"User": "op1", "Password": verifDigestHex("pw1")}
	verifIncoming = []packager.Package{login}
	if nondet_bool("a-message-before-the-connection-dies") {
		verifIncoming = append(verifIncoming, verifMarker(55))
	}
	verifReadIs1006 = nondet_bool("read-error-is-close-1006")
	if nondet_bool("closing-the-dead-socket-fails") {
		verifCloseErr = errors.New("verif: close: broken pipe")
	}
	t.handleRequest("x")
	verif_assert(c.Authenticated, "the operator was logged in")
	_, still := t.Clients.Load("x")
	verif_assert(!still, "a connection whose transport died leaves the client table")
	n := len(t.EventsList)
	verif_assert(n >= 1, "events are retained")
	if n >= 1 {
		last := t.EventsList[n-1]
		verif_assert(last.Head.Event == packager.Type.Chat.Type, "the disconnect is recorded as the last event")
		verif_assert(last.Body.SubEvent == packager.Type.Chat.UserDisconnected, "the last event is the operator's disconnect")
	}
	toDead := len(verifFramesTo(c))
	toOther := len(verifFramesTo(other))
	t.EventBroadcast("", verifMarker(9))
	verif_assert(len(verifFramesTo(c)) == toDead, "nothing is written to a connection that died")
	verif_assert(len(verifFramesTo(other)) == toOther+1, "the remaining operator gets a later event exactly once")
	verif_no_locks_held("a dying connection leaves no client mutex held")
	verif_witness()
}

// H_c11_race: two operator connections (each served by its own goroutine) record an event at
// the same time - bounded scheduler, every interleaving with at most 2 voluntary switches.
// Both events are retained, each exactly once, after the event that was there before.
func H_c11_race() {
	t := verifNewTeamserver(true)
	t.EventsList = append(t.EventsList, verifMarker(1))
	verif_par(func() { t.EventAppend(verifMarker(2)) }, func() { t.EventAppend(verifMarker(3)) })
	verif_assert(len(t.EventsList) == 3, "two events recorded at the same time are both retained")
	seen := map[int]int{}
	for _, e := range t.EventsList {
		seen[e.Body.SubEvent-1000]++
	}
	verif_assert(seen[1] == 1, "the event recorded before stays, once")
	verif_assert(seen[2] == 1, "the first concurrent event is retained exactly once")
	verif_assert(seen[3] == 1, "the second concurrent event is retained exactly once")
	if len(t.EventsList) >= 1 {
		verif_assert(t.EventsList[0].Body.SubEvent == 1001, "earlier events keep their place in the log")
	}
	verif_witness()
}
