package dynblock

import (
	stdjson "encoding/json"

	hcl "Havoc/pkg/profile/yaotl"
	"Havoc/pkg/profile/yaotl/gohcl"
	"Havoc/pkg/profile/yaotl/hcldec"
	"Havoc/pkg/profile/yaotl/hclsyntax"
	"Havoc/pkg/profile/yaotl/json"

	"github.com/zclconf/go-cty/cty"
)

func verifPlain(name string) byte {
	c := nondet_u8(name)
	// a character that stands for itself in a native quoted string and in a JSON string
	verif_assume(c >= 0x20)
	verif_assume(c < 0x7f)
	verif_assume(c != '"')
	verif_assume(c != '\\')
	verif_assume(c != '$')
	verif_assume(c != '%')
	return c
}

// verifPlainText: n characters that stand for themselves in both syntaxes
func verifPlainText(name string, n int) string {
	var out []byte
	for i := 0; i < n; i++ {
		out = append(out, verifPlain(name))
	}
	return string(out)
}

func verifCat(parts ...any) []byte {
	var out []byte
	for _, p := range parts {
		switch x := p.(type) {
		case string:
			out = append(out, x...)
		case byte:
			out = append(out, x)
		}
	}
	return out
}

func verifNative(src []byte, name string) (hcl.Body, bool) {
	f, diags := hclsyntax.ParseConfig(src, name, hcl.Pos{Byte: 0, Line: 1, Column: 1})
	if diags.HasErrors() {
		return nil, false
	}
	return f.Body, true
}

// verifSpellings builds the five spellings of one configuration (see H_c19_equiv); num is the
// text of the number n.
func verifSpellings(x, y, z string, hasA bool, num string) ([]hcl.Body, bool) {
	var bodies []hcl.Body
	la, lj := "", ""
	var laX, ljX []byte
	if hasA {
		laX = verifCat("a = \"", x, "\"\n")
		ljX = verifCat("\"a\":\"", x, "\",")
	}
	_, _ = la, lj
	// 0: plain
	b0, ok := verifNative(verifCat(string(laX), "n = ", num, "\nb {\n  c = \"", y, "\"\n}\nb {\n  c = \"", z, "\"\n}\n"), "v0")
	verif_assert(ok, "the plain spelling parses")
	// 1: reordered, comments, odd spacing, single-line block
	b1, ok1 := verifNative(verifCat("# k\nb { c = \"", y, "\" }\n\n  n=", num, " // t\nb {\n c   =   \"", z, "\"\n}\n/* m */\n", string(laX)), "v1")
	verif_assert(ok1, "the reordered spelling parses")
	// 2: JSON
	jf, jd := json.Parse(verifCat("{", string(ljX), "\"n\":", num, ",\"b\":[{\"c\":\"", y, "\"},{\"c\":\"", z, "\"}]}"), "v2")
	if jd.HasErrors() {
		verif_note(jd[0].Summary + ": " + jd[0].Detail)
	}
	verif_assert(!jd.HasErrors(), "the JSON spelling parses")
	// 3: two files merged
	f1, ok3 := verifNative(verifCat(string(laX), "b {\n c = \"", y, "\"\n}\n"), "v3a")
	f2, ok4 := verifNative(verifCat("n = ", num, "\nb {\n c = \"", z, "\"\n}\n"), "v3b")
	verif_assert(ok3, "the first part parses")
	verif_assert(ok4, "the second part parses")
	// 4: dynamic block over the same values
	b4, ok5 := verifNative(verifCat(string(laX), "n = ", num, "\ndynamic \"b\" {\n  for_each = [\"", y, "\", \"", z, "\"]\n  content {\n    c = b.value\n  }\n}\n"), "v4")
	verif_assert(ok5, "the dynamic-block spelling parses")
	if !ok || !ok1 || jd.HasErrors() || !ok3 || !ok4 || !ok5 {
		return nil, false
	}
	bodies = append(bodies, b0, b1, jf.Body, hcl.MergeBodies([]hcl.Body{f1, f2}), Expand(b4, nil))
	return bodies, true
}

// H_c19_equiv: one configuration (a required string attribute a, an optional number n, two
// repeated blocks b with a string attribute c; the three strings are arbitrary characters)
// written five ways - plainly, reordered with comments and odd spacing, in the JSON syntax,
// split over two merged files, and with the repeated blocks replaced by a dynamic block -
// decodes to the same value through hcldec, and the same holds for being valid at all (the
// required attribute is present in all spellings or missing in all).
func H_c19_equiv() {
	hclsyntax.VerifRuneSeg = true
	// first choice = (required attribute present?) x (class of the first character of X): shards
	slice := nondet_choice("present-x-class", 8)
	hasA := slice%2 == 1
	tl := verif_bound("equiv-text-len", 1, 2)
	x, y, z := verifPlainText("X", tl), verifPlainText("Y", tl), verifPlainText("Z", tl)
	verif_assume(int(x[0]>>5)-1 == slice/2) // 0x20-0x3f, 0x40-0x5f, 0x60-0x7e (class 3 is empty)
	spec := hcldec.ObjectSpec{
		"a": &hcldec.AttrSpec{Name: "a", Type: cty.String, Required: true},
		"n": &hcldec.AttrSpec{Name: "n", Type: cty.Number},
		"b": &hcldec.BlockListSpec{TypeName: "b", Nested: hcldec.ObjectSpec{
			"c": &hcldec.AttrSpec{Name: "c", Type: cty.String},
		}},
	}
	bodies, ok := verifSpellings(x, y, z, hasA, "18446744073709551617")
	if !ok {
		return
	}
	var first cty.Value
	for i, b := range bodies {
		v, diags := hcldec.Decode(b, spec, nil)
		verif_assert(diags.HasErrors() == !hasA, "every spelling is valid exactly when the configuration is")
		if diags.HasErrors() {
			continue
		}
		if i == 0 {
			first = v
			// the value itself
			verif_assert(v.GetAttr("a").AsString() == x, "attribute a decodes to its text")
			big65, _ := cty.ParseNumberVal("18446744073709551617") // 2^64+1: needs more than 64 bits of mantissa
			verif_assert(v.GetAttr("n").RawEquals(big65), "attribute n decodes to its number, exactly")
			bl := v.GetAttr("b")
			verif_assert(bl.LengthInt() == 2, "both blocks are decoded")
			if bl.LengthInt() == 2 {
				verif_assert(bl.Index(cty.NumberIntVal(0)).GetAttr("c").AsString() == y, "first block, in order")
				verif_assert(bl.Index(cty.NumberIntVal(1)).GetAttr("c").AsString() == z, "second block, in order")
			}
		} else {
			verif_assert(v.RawEquals(first), "an equivalent spelling decodes to the same value")
		}
	}
	verif_witness()
}

// encoding/json.Unmarshal as the JSON parser of this package uses it: decoding one string
// token into a Go string. Modelled for tokens without escape sequences (the harness never
// produces a backslash); anything else is outside the model.
//
//verif:stub encoding/json.Unmarshal
func verifStubJSONUnmarshal(data []byte, v any) error {
	if n, isNum := v.(*stdjson.Number); isNum {
		*n = stdjson.Number(string(data)) // number tokens keep their text; cty parses it afterwards
		return nil
	}
	p, ok := v.(*string)
	if !ok {
		verif_fail("json.Unmarshal target not modelled")
		return nil
	}
	if len(data) < 2 {
		verif_fail("json.Unmarshal: not a string token")
		return nil
	}
	for _, c := range data[1 : len(data)-1] {
		verif_assume(c != '\\')
	}
	*p = string(data[1 : len(data)-1])
	return nil
}

// H_c19_nested_dynamic: nested repeated blocks (g { i { v = .. } i { v = .. } }) against the
// spelling with a dynamic block inside a dynamic block's content, both using the same
// iterator name (the inner one shadows the outer): same decoded value for arbitrary strings.
func H_c19_nested_dynamic() {
	hclsyntax.VerifRuneSeg = true
	y, z := verifPlain("Y"), verifPlain("Z")
	sameName := nondet_bool("same-iterator-name")
	spec := hcldec.ObjectSpec{
		"g": &hcldec.BlockListSpec{TypeName: "g", Nested: hcldec.ObjectSpec{
			"i": &hcldec.BlockListSpec{TypeName: "i", Nested: hcldec.ObjectSpec{
				"v": &hcldec.AttrSpec{Name: "v", Type: cty.String},
			}},
		}},
	}
	b0, ok0 := verifNative(verifCat("g {\n  i {\n    v = \"", y, "\"\n  }\n  i {\n    v = \"", z, "\"\n  }\n}\n"), "s")
	inner := "jt"
	if sameName {
		inner = "it"
	}
	b1, ok1 := verifNative(verifCat("dynamic \"g\" {\n  for_each = [[\"", y, "\", \"", z, "\"]]\n  iterator = it\n  content {\n    dynamic \"i\" {\n      for_each = it.value\n      iterator = ", inner, "\n      content {\n        v = ", inner, ".value\n      }\n    }\n  }\n}\n"), "d")
	verif_assert(ok0, "the static spelling parses")
	verif_assert(ok1, "the nested dynamic spelling parses")
	if !ok0 || !ok1 {
		return
	}
	v0, d0 := hcldec.Decode(b0, spec, nil)
	v1, d1 := hcldec.Decode(Expand(b1, nil), spec, nil)
	verif_assert(!d0.HasErrors(), "the static spelling is valid")
	verif_assert(!d1.HasErrors(), "the nested dynamic spelling is valid")
	if d0.HasErrors() || d1.HasErrors() {
		return
	}
	verif_assert(v1.RawEquals(v0), "nested dynamic blocks decode to the same value as the blocks they stand for")
	g := v0.GetAttr("g")
	verif_assert(g.LengthInt() == 1, "one outer block")
	if g.LengthInt() == 1 {
		is := g.Index(cty.NumberIntVal(0)).GetAttr("i")
		verif_assert(is.LengthInt() == 2, "two inner blocks")
		if is.LengthInt() == 2 {
			verif_assert(is.Index(cty.NumberIntVal(0)).GetAttr("v").AsString() == string([]byte{y}), "first inner value")
			verif_assert(is.Index(cty.NumberIntVal(1)).GetAttr("v").AsString() == string([]byte{z}), "second inner value")
		}
	}
	verif_witness()
}

type verifCfgB struct {
	C string `yaotl:"c"`
}

type verifCfg struct {
	A string      `yaotl:"a"`
	N int         `yaotl:"n,optional"`
	B []verifCfgB `yaotl:"b,block"`
}

// H_c19_equiv_gohcl: the same five spellings through the other decoder: gohcl.DecodeBody into a
// Go struct (a required string, an optional int, repeated blocks) gives the same struct, and
// all spellings are valid together.
func H_c19_equiv_gohcl() {
	hclsyntax.VerifRuneSeg = true
	hasA := nondet_bool("required-present")
	x, y, z := verifPlainText("X", 1), verifPlainText("Y", 1), verifPlainText("Z", 1)
	bodies, ok := verifSpellings(x, y, z, hasA, "5")
	if !ok {
		verif_fail("every spelling parses")
		return
	}
	var first verifCfg
	for i, b := range bodies {
		var cfg verifCfg
		diags := gohcl.DecodeBody(b, nil, &cfg)
		verif_assert(diags.HasErrors() == !hasA, "every spelling is valid exactly when the configuration is (gohcl)")
		if diags.HasErrors() {
			continue
		}
		if i == 0 {
			first = cfg
			verif_assert(cfg.A == x, "attribute a decodes to its text (gohcl)")
			verif_assert(cfg.N == 5, "attribute n decodes to its number (gohcl)")
			verif_assert(len(cfg.B) == 2, "both blocks are decoded (gohcl)")
			if len(cfg.B) == 2 {
				verif_assert(cfg.B[0].C == y, "first block, in order (gohcl)")
				verif_assert(cfg.B[1].C == z, "second block, in order (gohcl)")
			}
		} else {
			verif_assert(cfg.A == first.A, "an equivalent spelling decodes to the same struct: a")
			verif_assert(cfg.N == first.N, "an equivalent spelling decodes to the same struct: n")
			verif_assert(len(cfg.B) == len(first.B), "an equivalent spelling decodes to the same struct: blocks")
			if len(cfg.B) == len(first.B) {
				for k := range cfg.B {
					verif_assert(cfg.B[k].C == first.B[k].C, "an equivalent spelling decodes to the same struct: block contents")
				}
			}
		}
	}
	verif_witness()
}
