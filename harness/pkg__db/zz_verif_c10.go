package db

// C10 (narrow slice): the Go side of agent persistence. Inside gosx database/sql is a
// recorder that keys every value by the column name parsed from the SQL text of the current
// source (so a swapped column/argument order is seen) and stores values faithfully; natively
// the same harness runs against a real SQLite file.

import (
	"database/sql"
	"encoding/base64"
	"errors"
	"os"
	"strconv"
	"strings"

	"Havoc/pkg/agent"
)

// ---------------------------------------------------------------------------------------
// A small relational engine standing in for SQLite inside gosx. It executes the SQL text the
// code under analysis really sends (CREATE TABLE / INSERT / UPDATE / DELETE / SELECT with
// "col = ?" conditions joined by AND or OR), so a changed statement changes the outcome.
// SQLite semantics that matter to C10 are modelled explicitly:
//   * column type affinity is derived from the declared type by SQLite's rules, and text that
//     is a well-formed integer literal is converted when stored in a column of NUMERIC,
//     INTEGER or REAL affinity (it reads back in canonical form: "007" -> "7");
//   * UNIQUE columns reject a second row with the same value;
//   * every statement is atomic and durable (journalling itself is outside the model).
// Text that looks like a real literal (digits with '.', 'e', 'E') is outside the model.

type verifSQLNum string // text that SQLite stored as a number; reads back in canonical form

type verifSQLCol struct {
	name     string
	affinity string // TEXT, NUMERIC, INTEGER, REAL, BLOB
	unique   bool
}

type verifSQLTable struct {
	name string
	cols []verifSQLCol
	rows [][]any
}

type verifSQLCond struct {
	col   int
	param int // index into args, or -1 when lit is used
	lit   int64
}

var (
	verifTables  []*verifSQLTable
	verifStmtSQL = map[*sql.Stmt]string{}
	verifRowsOf  = map[*sql.Rows]*verifCursor{}
	// crash model: statements still to be executed before the process dies (-1 = never)
	verifKillAfter = -1
	verifDied      = false
)

var errVerifDied = errors.New("verif: process killed")

type verifCursor struct {
	rows [][]any
	pos  int
	open bool
}

// verifOpenCursors: result sets handed out and not yet closed (by Close, or by Next running
// off the end, as database/sql does). Each one pins a pooled connection whose read lock
// keeps every writer out: go-sqlite3 in the default journal mode answers the next
// INSERT/UPDATE/DELETE with "database is locked".
var verifOpenCursors = 0

func (c *verifCursor) close() {
	if c != nil && c.open {
		c.open = false
		verifOpenCursors--
	}
}

// verifIdle: no result set of a finished database operation is still open (natively: no
// pooled connection is still in use).
func verifIdle(d *DB) bool {
	if verif_symbolic() {
		return verifOpenCursors == 0
	}
	return d.db.Stats().InUse == 0
}

const verifIdleLabel = "a finished database operation leaves no result set open (an open one keeps the database locked against every later write)"


func verifUnquote(s string) string {
	s = strings.TrimSpace(s)
	return strings.Trim(s, "\"`")
}

func verifAffinityOf(decl string) string {
	d := strings.ToUpper(decl)
	switch {
	case strings.Contains(d, "INT"):
		return "INTEGER"
	case strings.Contains(d, "CHAR") || strings.Contains(d, "CLOB") || strings.Contains(d, "TEXT"):
		return "TEXT"
	case strings.Contains(d, "BLOB") || strings.TrimSpace(d) == "":
		return "BLOB"
	case strings.Contains(d, "REAL") || strings.Contains(d, "FLOA") || strings.Contains(d, "DOUB"):
		return "REAL"
	}
	return "NUMERIC"
}

func verifTableByName(name string) *verifSQLTable {
	for _, t := range verifTables {
		if t.name == name {
			return t
		}
	}
	return nil
}

func (t *verifSQLTable) col(name string) int {
	name = verifUnquote(name)
	for i, c := range t.cols {
		if c.name == name {
			return i
		}
	}
	return -1
}

func verifIsSpace(c byte) bool {
	return c == ' ' || c == '\t' || c == '\n' || c == '\r' || c == '\v' || c == '\f'
}

// verifIntLiteral: is s (after trimming white space) an optional sign followed by digits
// only; the canonical decimal spelling of that integer is returned.
func verifIntLiteral(s string) (string, bool) {
	a, b := 0, len(s)
	for a < b && verifIsSpace(s[a]) {
		a++
	}
	for b > a && verifIsSpace(s[b-1]) {
		b--
	}
	neg := false
	if a < b {
		if s[a] == '+' {
			a++
		} else if s[a] == '-' {
			neg = true
			a++
		}
	}
	if a == b {
		return "", false
	}
	for k := a; k < b; k++ {
		if s[k] < '0' {
			return "", false
		}
		if s[k] > '9' {
			return "", false
		}
	}
	for a < b-1 && s[a] == '0' {
		a++
	}
	digits := s[a:b]
	if digits == "0" {
		return "0", true
	}
	if neg {
		return "-" + digits, true
	}
	return digits, true
}

// verifLooksReal: digits together with '.', 'e' or 'E' (outside the model)
func verifLooksReal(s string) bool {
	digit, mark := false, false
	for k := 0; k < len(s); k++ {
		c := s[k]
		if c >= '0' {
			if c <= '9' {
				digit = true
			}
		}
		if c == '.' {
			mark = true
		}
		if c == 'e' {
			mark = true
		}
		if c == 'E' {
			mark = true
		}
	}
	if digit {
		return mark
	}
	return false
}

// verifStore converts a bound argument to what SQLite keeps in a column of this affinity.
func verifStore(aff string, v any) (any, error) {
	switch x := v.(type) {
	case int:
		return int64(x), nil
	case int32:
		return int64(x), nil
	case int64:
		return x, nil
	case bool:
		if x {
			return int64(1), nil
		}
		return int64(0), nil
	case string:
		if aff == "TEXT" || aff == "BLOB" {
			return x, nil
		}
		if canon, ok := verifIntLiteral(x); ok {
			return verifSQLNum(canon), nil
		}
		verif_assume(!verifLooksReal(x)) // real-literal-looking text: outside the model
		return x, nil
	}
	return nil, errors.New("verif: argument type not modelled")
}

func verifSQLEq(a, b any) bool {
	switch x := a.(type) {
	case int64:
		if y, ok := b.(int64); ok {
			return x == y
		}
	case string:
		if y, ok := b.(string); ok {
			return x == y
		}
		if y, ok := b.(verifSQLNum); ok {
			return x == string(y)
		}
	case verifSQLNum:
		if y, ok := b.(verifSQLNum); ok {
			return x == y
		}
		if y, ok := b.(string); ok {
			return string(x) == y
		}
	}
	return false
}

// verifParseWhere parses "a = ? AND b = 1" (one connective kind per clause)
func verifParseWhere(t *verifSQLTable, w string, firstParam int) ([]verifSQLCond, bool, error) {
	w = strings.TrimSpace(strings.TrimSuffix(strings.TrimSpace(w), ";"))
	or := false
	var parts []string
	if strings.Contains(w, " OR ") {
		or = true
		parts = strings.Split(w, " OR ")
		if strings.Contains(w, " AND ") {
			return nil, false, errors.New("verif: mixed AND/OR not modelled: " + w)
		}
	} else {
		parts = strings.Split(w, " AND ")
	}
	var conds []verifSQLCond
	p := firstParam
	for _, part := range parts {
		kv := strings.Split(part, "=")
		if len(kv) != 2 {
			return nil, false, errors.New("verif: condition not modelled: " + part)
		}
		ci := t.col(kv[0])
		if ci < 0 {
			return nil, false, errors.New("no such column: " + kv[0])
		}
		rhs := strings.TrimSpace(kv[1])
		if rhs == "?" {
			conds = append(conds, verifSQLCond{col: ci, param: p})
			p++
		} else {
			n, err := strconv.ParseInt(rhs, 10, 64)
			if err != nil {
				return nil, false, errors.New("verif: literal not modelled: " + rhs)
			}
			conds = append(conds, verifSQLCond{col: ci, param: -1, lit: n})
		}
	}
	return conds, or, nil
}

func verifMatch(t *verifSQLTable, row []any, conds []verifSQLCond, or bool, args []any) (bool, error) {
	if len(conds) == 0 {
		return true, nil
	}
	res := !or
	for _, c := range conds {
		var want any = c.lit
		if c.param >= 0 {
			if c.param >= len(args) {
				return false, errors.New("verif: not enough arguments")
			}
			v, err := verifStore(t.cols[c.col].affinity, args[c.param])
			if err != nil {
				return false, err
			}
			want = v
		}
		hit := verifSQLEq(row[c.col], want)
		if or {
			if hit {
				res = true
			}
		} else {
			if !hit {
				res = false
			}
		}
	}
	return res, nil
}

// verifExec runs a data-changing statement.
func verifExec(q string, args []any) error {
	if verifDied {
		return errVerifDied
	}
	if verifKillAfter == 0 {
		verifDied = true
		return errVerifDied
	}
	if verifKillAfter > 0 {
		verifKillAfter--
	}
	if verifOpenCursors > 0 {
		return errors.New("database is locked")
	}
	q = strings.TrimSpace(q)
	switch {
	case strings.HasPrefix(q, "CREATE TABLE"):
		a := strings.Index(q, "(")
		b := strings.LastIndex(q, ")")
		name := verifUnquote(q[len("CREATE TABLE"):a])
		if verifTableByName(name) != nil {
			return errors.New("table " + name + " already exists")
		}
		t := &verifSQLTable{name: name}
		for _, def := range strings.Split(q[a+1:b], ",") {
			f := strings.Fields(def)
			if len(f) == 0 {
				return errors.New("verif: empty column definition")
			}
			decl := strings.Join(f[1:], " ")
			uniq := strings.Contains(strings.ToUpper(decl), "UNIQUE")
			decl = strings.TrimSpace(strings.Replace(strings.Replace(decl, "UNIQUE", "", 1), "unique", "", 1))
			t.cols = append(t.cols, verifSQLCol{name: verifUnquote(f[0]), affinity: verifAffinityOf(decl), unique: uniq})
		}
		verifTables = append(verifTables, t)
		return nil
	case strings.HasPrefix(q, "INSERT INTO "):
		rest := q[len("INSERT INTO "):]
		a := strings.Index(rest, "(")
		b := strings.Index(rest, ")")
		t := verifTableByName(verifUnquote(rest[:a]))
		if t == nil {
			return errors.New("no such table: " + rest[:a])
		}
		names := strings.Split(rest[a+1:b], ",")
		vals := rest[b+1:]
		if strings.Count(vals, "?") != len(names) {
			return errors.New("verif: " + strconv.Itoa(strings.Count(vals, "?")) + " values for " + strconv.Itoa(len(names)) + " columns")
		}
		if len(args) != len(names) {
			return errors.New("verif: argument count mismatch")
		}
		row := make([]any, len(t.cols))
		for i, n := range names {
			ci := t.col(n)
			if ci < 0 {
				return errors.New("no such column: " + n)
			}
			v, err := verifStore(t.cols[ci].affinity, args[i])
			if err != nil {
				return err
			}
			row[ci] = v
		}
		for ci, c := range t.cols {
			if c.unique {
				for _, old := range t.rows {
					if verifSQLEq(old[ci], row[ci]) {
						return errors.New("UNIQUE constraint failed: " + t.name + "." + c.name)
					}
				}
			}
		}
		t.rows = append(t.rows, row)
		return nil
	case strings.HasPrefix(q, "UPDATE "):
		rest := q[len("UPDATE "):]
		si := strings.Index(rest, " SET ")
		t := verifTableByName(verifUnquote(rest[:si]))
		if t == nil {
			return errors.New("no such table: " + rest[:si])
		}
		rest = rest[si+len(" SET "):]
		where := ""
		if wi := strings.Index(rest, " WHERE "); wi >= 0 {
			where = rest[wi+len(" WHERE "):]
			rest = rest[:wi]
		}
		type set struct {
			col   int
			param int
			lit   int64
		}
		var sets []set
		p := 0
		for _, asg := range strings.Split(rest, ",") {
			kv := strings.Split(asg, "=")
			if len(kv) != 2 {
				return errors.New("verif: assignment not modelled: " + asg)
			}
			ci := t.col(kv[0])
			if ci < 0 {
				return errors.New("no such column: " + kv[0])
			}
			rhs := strings.TrimSpace(kv[1])
			if rhs == "?" {
				sets = append(sets, set{col: ci, param: p})
				p++
			} else {
				n, err := strconv.ParseInt(rhs, 10, 64)
				if err != nil {
					return errors.New("verif: literal not modelled: " + rhs)
				}
				sets = append(sets, set{col: ci, param: -1, lit: n})
			}
		}
		var conds []verifSQLCond
		or := false
		if where != "" {
			var err error
			conds, or, err = verifParseWhere(t, where, p)
			if err != nil {
				return err
			}
		}
		for _, row := range t.rows {
			hit, err := verifMatch(t, row, conds, or, args)
			if err != nil {
				return err
			}
			if hit {
				for _, s := range sets {
					if s.param < 0 {
						row[s.col] = s.lit
						continue
					}
					if s.param >= len(args) {
						return errors.New("verif: not enough arguments")
					}
					v, err := verifStore(t.cols[s.col].affinity, args[s.param])
					if err != nil {
						return err
					}
					row[s.col] = v
				}
			}
		}
		return nil
	case strings.HasPrefix(q, "DELETE FROM "):
		rest := q[len("DELETE FROM "):]
		where := ""
		if wi := strings.Index(rest, " WHERE "); wi >= 0 {
			where = rest[wi+len(" WHERE "):]
			rest = rest[:wi]
		}
		t := verifTableByName(verifUnquote(rest))
		if t == nil {
			return errors.New("no such table: " + rest)
		}
		var conds []verifSQLCond
		or := false
		if where != "" {
			var err error
			conds, or, err = verifParseWhere(t, where, 0)
			if err != nil {
				return err
			}
		}
		var keep [][]any
		for _, row := range t.rows {
			hit, err := verifMatch(t, row, conds, or, args)
			if err != nil {
				return err
			}
			if !hit {
				keep = append(keep, row)
			}
		}
		t.rows = keep
		return nil
	}
	return errors.New("verif: statement not modelled: " + q)
}

// verifQuery runs a SELECT.
func verifQuery(q string, args []any) (*sql.Rows, error) {
	if verifDied {
		return nil, errVerifDied
	}
	q = strings.TrimSpace(q)
	if !strings.HasPrefix(q, "SELECT ") {
		return nil, errors.New("verif: query not modelled: " + q)
	}
	fi := strings.Index(q, " FROM ")
	list := q[len("SELECT "):fi]
	rest := q[fi+len(" FROM "):]
	where := ""
	if wi := strings.Index(rest, " WHERE "); wi >= 0 {
		where = rest[wi+len(" WHERE "):]
		rest = rest[:wi]
	}
	t := verifTableByName(verifUnquote(rest))
	if t == nil {
		return nil, errors.New("no such table: " + rest)
	}
	var conds []verifSQLCond
	or := false
	if where != "" {
		var err error
		conds, or, err = verifParseWhere(t, where, 0)
		if err != nil {
			return nil, err
		}
	}
	count := strings.TrimSpace(list) == "COUNT(*)"
	var cols []int
	if !count {
		for _, n := range strings.Split(list, ",") {
			ci := t.col(n)
			if ci < 0 {
				return nil, errors.New("no such column: " + n)
			}
			cols = append(cols, ci)
		}
	}
	cur := &verifCursor{}
	n := int64(0)
	for _, row := range t.rows {
		hit, err := verifMatch(t, row, conds, or, args)
		if err != nil {
			return nil, err
		}
		if hit {
			n++
			if !count {
				out := make([]any, len(cols))
				for i, ci := range cols {
					out[i] = row[ci]
				}
				cur.rows = append(cur.rows, out)
			}
		}
	}
	if count {
		cur.rows = [][]any{{n}}
	}
	r := new(sql.Rows)
	verifRowsOf[r] = cur
	cur.open = true
	verifOpenCursors++
	return r, nil
}

//verif:stub (*database/sql.DB).Exec
func verifStubDBExec(d *sql.DB, q string, args ...any) (sql.Result, error) {
	return nil, verifExec(q, args)
}

//verif:stub (*database/sql.DB).Prepare
func verifStubPrepare(d *sql.DB, query string) (*sql.Stmt, error) {
	if verifDied {
		return nil, errVerifDied
	}
	st := new(sql.Stmt)
	verifStmtSQL[st] = query
	return st, nil
}

//verif:stub (*database/sql.Stmt).Close
func verifStubStmtClose(st *sql.Stmt) error { return nil }

//verif:stub (*database/sql.Stmt).Exec
func verifStubStmtExec(st *sql.Stmt, args ...any) (sql.Result, error) {
	return nil, verifExec(verifStmtSQL[st], args)
}

//verif:stub (*database/sql.Stmt).Query
func verifStubStmtQuery(st *sql.Stmt, args ...any) (*sql.Rows, error) {
	return verifQuery(verifStmtSQL[st], args)
}

//verif:stub (*database/sql.DB).Query
func verifStubDBQuery(d *sql.DB, q string, args ...any) (*sql.Rows, error) {
	return verifQuery(q, args)
}

//verif:stub (*database/sql.Rows).Next
func verifStubRowsNext(r *sql.Rows) bool {
	c := verifRowsOf[r]
	if c == nil {
		return false
	}
	if c.pos >= len(c.rows) {
		c.close()
		return false
	}
	return true
}

//verif:stub (*database/sql.Rows).Close
func verifStubRowsClose(r *sql.Rows) error {
	verifRowsOf[r].close()
	return nil
}

// Scan converts like database/sql.convertAssign for the kinds the code uses.
//
//verif:stub (*database/sql.Rows).Scan
func verifStubRowsScan(r *sql.Rows, dest ...any) error {
	c := verifRowsOf[r]
	row := c.rows[c.pos]
	c.pos++
	if len(dest) != len(row) {
		return errors.New("sql: expected " + strconv.Itoa(len(row)) + " destination arguments in Scan, not " + strconv.Itoa(len(dest)))
	}
	for i, v := range row {
		switch d := dest[i].(type) {
		case *int:
			x, ok := v.(int64)
			if !ok {
				return errors.New("sql: Scan error: converting text to int is not modelled")
			}
			*d = int(x)
		case *int64:
			x, ok := v.(int64)
			if !ok {
				return errors.New("sql: Scan error: converting text to int64 is not modelled")
			}
			*d = x
		case *int32:
			x, ok := v.(int64)
			if !ok {
				return errors.New("sql: Scan error: converting text to int32 is not modelled")
			}
			*d = int32(x)
		case *string:
			switch x := v.(type) {
			case string:
				*d = x
			case verifSQLNum:
				*d = string(x)
			case nil:
				return errors.New("sql: Scan error: converting NULL to string is unsupported")
			default:
				return errors.New("sql: Scan error: integer to string is not modelled")
			}
		default:
			return errors.New("verif: Scan destination type not modelled")
		}
	}
	return nil
}

// base64 as an injective, reversible text encoding (inside gosx only). The standard and the
// URL alphabet differ exactly in the characters for the 6-bit values 62 and 63, so text
// written with one decodes with the other unless such a value occurs: the model tags the
// text with the alphabet only in that case (counterexamples then reproduce natively).
func verifB64Needs6263(src []byte) bool {
	hit := false
	for i := 0; i < len(src); i += 3 {
		var b0, b1, b2 byte
		b0 = src[i]
		n := 1
		if i+1 < len(src) {
			b1 = src[i+1]
			n = 2
		}
		if i+2 < len(src) {
			b2 = src[i+2]
			n = 3
		}
		g := []byte{b0 >> 2, (b0&3)<<4 | b1>>4, (b1&15)<<2 | b2>>6, b2 & 63}
		for k := 0; k <= n; k++ {
			if g[k] >= 62 {
				hit = true
			}
		}
	}
	return hit
}

func verifB64Tag(e *base64.Encoding, src []byte) string {
	if e == base64.StdEncoding {
		return "b64s:"
	}
	if e == base64.URLEncoding {
		if verifB64Needs6263(src) {
			return "b64u:"
		}
		return "b64s:"
	}
	return "b64?:"
}

//verif:stub (*encoding/base64.Encoding).EncodeToString
func verifStubB64Enc(e *base64.Encoding, src []byte) string { return verifB64Tag(e, src) + string(src) }

//verif:stub (*encoding/base64.Encoding).DecodeString
func verifStubB64Dec(e *base64.Encoding, s string) ([]byte, error) {
	if len(s) < 5 {
		return nil, errors.New("verif: not base64")
	}
	body := []byte(s[5:])
	if s[:5] != verifB64Tag(e, body) {
		return nil, errors.New("verif: not base64 of this alphabet")
	}
	return body, nil
}

var verifDBPath string

// verifOpenDB opens a fresh database: inside gosx the relational model (the real init()
// creates the tables from the real CREATE TABLE text), natively a new SQLite file.
func verifOpenDB() *DB {
	if verif_symbolic() {
		verifTables = nil
		verifKillAfter = -1
		verifDied = false
		verifOpenCursors = 0
		d := &DB{db: new(sql.DB), existed: false}
		if err := d.init(); err != nil {
			panic(err)
		}
		return d
	}
	dir, err := os.MkdirTemp("", "verifdb")
	if err != nil {
		panic(err)
	}
	verifDBPath = dir + "/ts.db"
	d, err := DatabaseNew(verifDBPath)
	if err != nil {
		panic(err)
	}
	return d
}

// verifReopen is a restart of the teamserver on the same database file.
func verifReopen() *DB {
	if verif_symbolic() {
		verifKillAfter = -1
		verifDied = false
		verifOpenCursors = 0 // the old process is gone, and its connections with it
		return &DB{db: new(sql.DB), existed: true}
	}
	d, err := DatabaseNew(verifDBPath)
	if err != nil {
		panic(err)
	}
	return d
}

// verifWord: metadata text of n arbitrary printable ASCII characters (digits, blanks and
// signs included: text that looks like a number is where SQLite's column affinity matters)
func verifWord(name string, n int) string {
	b := nondet_bytes(name, n)
	for _, c := range b {
		verif_assume(c >= 0x20)
		verif_assume(c < 0x7f)
	}
	return string(b)
}

// verifLetters: n arbitrary lower-case letters
func verifLetters(name string, n int) string {
	b := nondet_bytes(name, n)
	for _, c := range b {
		verif_assume(c >= 'a')
		verif_assume(c <= 'z')
	}
	return string(b)
}

func verifHex8(id uint32) string {
	const hexd = "0123456789abcdef"
	b := make([]byte, 8)
	for i := 0; i < 8; i++ {
		b[i] = hexd[(id>>uint(28-4*i))&15]
	}
	return string(b)
}

// H_c10_agent_roundtrip: an acknowledged registration is restored with the same id, key, IV
// and recorded metadata; after its death it is not restored.
func H_c10_agent_roundtrip() {
	d := verifOpenDB()
	// top byte arbitrary (ids >= 0x80000000 included), low 24 bits fixed
	id := uint32(nondet_u8("id-top"))<<24 | 0x00a1b2c3
	a := &agent.Agent{NameID: verifHex8(id), Active: true, Info: new(agent.AgentInfo)}
	a.Encryption.AESKey = nondet_bytes("key", 2)
	a.Encryption.AESIv = nondet_bytes("iv", 2)
	a.Info.Hostname = verifLetters("hostname", 1+nondet_choice("hostname-len", 2))
	a.Info.Username = verifLetters("username", 1)
	a.Info.DomainName = verifLetters("domain", 1)
	a.Info.ExternalIP = "e"
	a.Info.InternalIP = "i"
	a.Info.ProcessName = verifLetters("procname", 1)
	a.Info.ProcessArch = "x"
	a.Info.Elevated = "t"
	a.Info.OSVersion = "o"
	a.Info.OSArch = "r"
	a.Info.FirstCallIn = "f"
	a.Info.LastCallIn = "l"
	a.Info.BaseAddress = int64(nondet_u32("base"))
	a.Info.ProcessPID = int(nondet_u16("pid"))
	a.Info.ProcessTID = int(nondet_u16("tid"))
	a.Info.ProcessPPID = int(nondet_u16("ppid"))
	a.Info.SleepDelay = int(nondet_u16("sleep"))
	a.Info.SleepJitter = int(nondet_u8("jitter"))
	a.Info.KillDate = int64(nondet_u32("killdate"))
	a.Info.WorkingHours = int32(nondet_u16("hours"))

	err := d.AgentAdd(a)
	verif_assert(err == nil, "registering a session persists it (every 32-bit id)")
	d = verifReopen()
	all := d.AgentAll()
	verif_assert(len(all) == 1, "exactly the registered session is restored")
	if len(all) == 1 {
		r := all[0]
		verif_assert(r.NameID == a.NameID, "restored id")
		verif_assert(string(r.Encryption.AESKey) == string(a.Encryption.AESKey), "restored key")
		verif_assert(string(r.Encryption.AESIv) == string(a.Encryption.AESIv), "restored IV")
		verif_assert(r.Info.Hostname == a.Info.Hostname, "restored Hostname")
		verif_assert(r.Info.Username == a.Info.Username, "restored Username")
		verif_assert(r.Info.DomainName == a.Info.DomainName, "restored DomainName")
		verif_assert(r.Info.ExternalIP == "e", "restored ExternalIP")
		verif_assert(r.Info.InternalIP == "i", "restored InternalIP")
		verif_assert(r.Info.ProcessName == a.Info.ProcessName, "restored ProcessName")
		verif_assert(r.Info.ProcessArch == "x", "restored ProcessArch")
		verif_assert(r.Info.Elevated == "t", "restored Elevated")
		verif_assert(r.Info.OSVersion == "o", "restored OSVersion")
		verif_assert(r.Info.OSArch == "r", "restored OSArch")
		verif_assert(r.Info.FirstCallIn == "f", "restored FirstCallIn")
		verif_assert(r.Info.LastCallIn == "l", "restored LastCallIn")
		verif_assert(r.Info.BaseAddress == a.Info.BaseAddress, "restored BaseAddress")
		verif_assert(r.Info.ProcessPID == a.Info.ProcessPID, "restored ProcessPID")
		verif_assert(r.Info.ProcessTID == a.Info.ProcessTID, "restored ProcessTID")
		verif_assert(r.Info.ProcessPPID == a.Info.ProcessPPID, "restored ProcessPPID")
		verif_assert(r.Info.SleepDelay == a.Info.SleepDelay, "restored SleepDelay")
		verif_assert(r.Info.SleepJitter == a.Info.SleepJitter, "restored SleepJitter")
		verif_assert(r.Info.KillDate == a.Info.KillDate, "restored KillDate")
		verif_assert(r.Info.WorkingHours == a.Info.WorkingHours, "restored WorkingHours")
		verif_assert(r.Active, "restored sessions are active")
	}
	// metadata update is written to the row of the same id
	a.Info.Hostname = "zz"
	a.Info.SleepDelay = 77
	verif_assert(d.AgentUpdate(a) == nil, "updating a persisted session succeeds")
	d = verifReopen()
	all = d.AgentAll()
	verif_assert(len(all) == 1, "an update neither adds nor removes a session")
	if len(all) == 1 {
		verif_assert(all[0].Info.Hostname == "zz", "updated Hostname is persisted")
		verif_assert(all[0].Info.SleepDelay == 77, "updated SleepDelay is persisted")
		verif_assert(all[0].Info.Username == a.Info.Username, "an update leaves the other fields")
		verif_assert(string(all[0].Encryption.AESKey) == string(a.Encryption.AESKey), "key after an update")
		verif_assert(string(all[0].Encryption.AESIv) == string(a.Encryption.AESIv), "IV after an update")
	}
	// death
	a.Active = false
	a.Reason = "dead"
	verif_assert(d.AgentUpdate(a) == nil, "marking a persisted session dead succeeds")
	verif_assert(len(d.AgentAll()) == 0, "dead agents are not restored")
	verif_assert(verifIdle(d), verifIdleLabel)
	verif_witness()
}

// H_c10_agent_life: after any sequence of 1..3 life events over two registered sessions
// (marked dead through an update, reported dead by id, marked alive again - an operator's
// "mark alive" or a pivot child that reconnects -, removed) and a restart, exactly the
// sessions that were last alive and not removed come back.
func H_c10_agent_life() {
	d := verifOpenDB()
	ids := []uint32{0x00a1b2c3, 0x90a1b2c4}
	var ag [2]*agent.Agent
	var alive, present [2]bool
	for i := range ag {
		a := &agent.Agent{NameID: verifHex8(ids[i]), Active: true, Info: new(agent.AgentInfo)}
		a.Encryption.AESKey = []byte{1, 2}
		a.Encryption.AESIv = []byte{3, 4}
		a.Info.Hostname = "h"
		verif_assert(d.AgentAdd(a) == nil, "registering a session persists it")
		ag[i], alive[i], present[i] = a, true, true
	}
	n := 1 + nondet_choice("events", verif_bound("agent-life-events", 3, 4))
	for k := 0; k < n; k++ {
		i := nondet_choice("which", 2)
		switch nondet_choice("event", 4) {
		case 0:
			ag[i].Active = false
			ag[i].Reason = "dead"
			err := d.AgentUpdate(ag[i])
			verif_assert((err == nil) == present[i], "an update succeeds exactly for a persisted session")
			alive[i] = false
		case 1:
			d.AgentHasDied(int(ids[i]))
			ag[i].Active = false
			alive[i] = false
		case 2:
			ag[i].Active = true
			ag[i].Reason = ""
			err := d.AgentUpdate(ag[i])
			verif_assert((err == nil) == present[i], "an update succeeds exactly for a persisted session")
			alive[i] = true
		case 3:
			verif_assert(d.AgentRemove(int(ids[i])) == nil, "removing a session succeeds")
			present[i] = false
		}
	}
	d = verifReopen()
	all := d.AgentAll()
	want := 0
	for i := range ag {
		found := 0
		for _, r := range all {
			if r.NameID == ag[i].NameID {
				found++
			}
		}
		if alive[i] && present[i] {
			want++
			verif_assert(found == 1, "a session that was alive when the teamserver stopped is restored once")
		} else {
			verif_assert(found == 0, "a dead or removed session is not restored")
		}
	}
	verif_assert(len(all) == want, "nothing else is restored")
	verif_assert(verifIdle(d), verifIdleLabel)
	verif_witness()
}

// H_c10_crash: the process is killed at an arbitrary point of a sequence of 1..3 operations
// (registration, death, link added/removed, listener added/removed) - before any of its
// statements, between two of them, or never; operations after the kill fail. Reopening the
// database yields exactly what the acknowledged operations (those that returned success)
// left: nothing acknowledged is missing, nothing unacknowledged is there. (Model only: every
// SQL statement is atomic and durable; the kill cannot be replayed natively.)
func H_c10_crash() {
	d := verifOpenDB()
	ids := []uint32{0x00a1b2c3, 0x90a1b2c4}
	var ag [2]*agent.Agent
	for i := range ag {
		ag[i] = &agent.Agent{NameID: verifHex8(ids[i]), Active: true, Info: new(agent.AgentInfo)}
		ag[i].Encryption.AESKey = []byte{1, 2}
		ag[i].Encryption.AESIv = []byte{3, 4}
		ag[i].Info.Hostname = "h"
	}
	n := 1 + nondet_choice("operations", verif_bound("crash-ops", 3, 4))
	verifKillAfter = nondet_choice("killed-before-this-write-statement", n+1)
	var alive [2]bool
	link, listener := false, false
	for k := 0; k < n; k++ {
		switch nondet_choice("operation", 7) {
		case 0, 1:
			i := nondet_choice("which", 2)
			if d.AgentAdd(ag[i]) == nil {
				alive[i] = true
			}
		case 2:
			i := nondet_choice("which", 2)
			ag[i].Active = false
			if d.AgentUpdate(ag[i]) == nil {
				alive[i] = false
			}
			ag[i].Active = true
		case 3:
			if d.LinkAdd(int(ids[0]), int(ids[1])) == nil {
				link = true
			}
		case 4:
			if d.LinkRemove(int(ids[0]), int(ids[1])) == nil {
				link = false
			}
		case 5:
			if d.ListenerAdd("w", "Http", "{}") == nil {
				listener = true
			}
		case 6:
			if d.ListenerRemove("w") == nil {
				listener = false
			}
		}
	}
	d = verifReopen()
	all := d.AgentAll()
	want := 0
	for i := range ag {
		found := 0
		for _, r := range all {
			if r.NameID == ag[i].NameID {
				found++
			}
		}
		if alive[i] {
			want++
			verif_assert(found == 1, "a session whose registration was acknowledged before the kill is restored")
		} else {
			verif_assert(found == 0, "a session that was never acknowledged, or whose death was, is not restored")
		}
	}
	verif_assert(len(all) == want, "nothing else is restored after the kill")
	verif_assert(d.LinkExist(int(ids[0]), int(ids[1])) == link, "exactly the acknowledged link changes survive the kill")
	verif_assert(d.ListenerExist("w") == listener, "exactly the acknowledged listener changes survive the kill")
	verif_assert(verifIdle(d), verifIdleLabel)
	verif_witness()
}

// H_c10_links: after any sequence of 1..4 link additions/removals over three agents and a
// restart, the database yields exactly the parent/child pairs that were added and not removed.
func H_c10_links() {
	d := verifOpenDB()
	ids := []int{0x11, 0x80000022, 0x33}
	var ref [3][3]bool
	n := 1 + nondet_choice("ops", verif_bound("link-ops", 3, 4))
	for k := 0; k < n; k++ {
		p := nondet_choice("parent", 3)
		c := nondet_choice("child", 3)
		if nondet_bool("remove") {
			verif_assert(d.LinkRemove(ids[p], ids[c]) == nil, "removing a link succeeds")
			ref[p][c] = false
		} else {
			err := d.LinkAdd(ids[p], ids[c])
			if ref[p][c] {
				verif_assert(err != nil, "a second copy of a link is refused")
			} else {
				verif_assert(err == nil, "adding a link succeeds")
			}
			ref[p][c] = true
		}
	}
	d = verifReopen()
	for p := 0; p < 3; p++ {
		got := d.LinksOf(ids[p])
		want := 0
		for c := 0; c < 3; c++ {
			if ref[p][c] {
				want++
				found := 0
				for _, g := range got {
					if g == ids[c] {
						found++
					}
				}
				verif_assert(found == 1, "a recorded link is restored exactly once")
			}
			verif_assert(d.LinkExist(ids[p], ids[c]) == ref[p][c], "exactly the recorded pairs exist after the restart")
		}
		verif_assert(len(got) == want, "no link is restored that was not recorded")
	}
	for c := 0; c < 3; c++ {
		parents := 0
		for p := 0; p < 3; p++ {
			if ref[p][c] {
				parents++
			}
		}
		par, err := d.ParentOf(ids[c])
		if parents == 0 {
			verif_assert(err != nil, "an agent without a recorded parent has none after the restart")
		}
		if parents == 1 {
			verif_assert(err == nil, "a recorded parent is found after the restart")
			for p := 0; p < 3; p++ {
				if ref[p][c] {
					verif_assert(par == ids[p], "the restored parent is the recorded one")
				}
			}
		}
	}
	verif_assert(verifIdle(d), verifIdleLabel)
	verif_witness()
}

// H_c10_listeners: after any sequence of 1..3 listener additions/removals over arbitrary
// names (two name slots, 1..2 printable characters, digit-only names included) and a
// restart, exactly the listeners added and not removed come back, each with the protocol
// and configuration text it was saved with.
func H_c10_listeners() {
	d := verifOpenDB()
	names := []string{verifWord("name-a", 1+nondet_choice("name-a-len", 2)), verifWord("name-b", 1+nondet_choice("name-b-len", 2))}
	verif_assume(names[0] != names[1])
	confs := []string{verifWord("config-a", 2), verifWord("config-b", 2)}
	var present [2]bool
	n := 1 + nondet_choice("ops", 3)
	for k := 0; k < n; k++ {
		i := nondet_choice("which", 2)
		if nondet_bool("remove") {
			verif_assert(d.ListenerRemove(names[i]) == nil, "removing a listener succeeds")
			present[i] = false
		} else {
			err := d.ListenerAdd(names[i], "Smb", confs[i])
			if present[i] {
				verif_assert(err != nil, "a second listener of the same name is refused")
			} else {
				verif_assert(err == nil, "adding a listener succeeds")
			}
			present[i] = true
		}
	}
	d = verifReopen()
	all := d.ListenerAll()
	want := 0
	for i := 0; i < 2; i++ {
		if present[i] {
			want++
			found := 0
			for _, l := range all {
				if l["Name"] == names[i] {
					found++
					verif_assert(l["Protocol"] == "Smb", "restored protocol")
					verif_assert(l["Config"] == confs[i], "restored configuration, byte for byte")
				}
			}
			verif_assert(found == 1, "a saved listener is restored exactly once under its own name")
		}
		verif_assert(d.ListenerExist(names[i]) == present[i], "exactly the saved listeners exist after the restart")
	}
	verif_assert(len(all) == want, "no listener is restored that was not saved")
	verif_assert(d.ListenerCount() == want, "listener count after the restart")
	verif_assert(verifIdle(d), verifIdleLabel)
	verif_witness()
}

// H_c10_agent_text: recorded metadata comes back byte for byte whatever the text looks like:
// one text field of a registration (host, user, domain, process name, OS version) holds 1..3
// arbitrary printable ASCII characters - digit-only, leading zeros, signs and blank padding
// included - and is compared after a restart.
func H_c10_agent_text() {
	d := verifOpenDB()
	a := &agent.Agent{NameID: "00a1b2c3", Active: true, Info: new(agent.AgentInfo)}
	a.Encryption.AESKey = []byte{1, 2}
	a.Encryption.AESIv = []byte{3, 4}
	a.Info.Hostname, a.Info.Username, a.Info.DomainName, a.Info.ProcessName, a.Info.OSVersion = "h", "u", "d", "p", "o"
	a.Info.ExternalIP, a.Info.InternalIP, a.Info.ProcessArch, a.Info.Elevated, a.Info.OSArch = "e", "i", "x", "t", "r"
	a.Info.FirstCallIn, a.Info.LastCallIn = "f", "l"
	which := nondet_choice("field", 5)
	text := verifWord("text", 1+nondet_choice("text-len", verif_bound("text-maxlen", 3, 4)))
	switch which {
	case 0:
		a.Info.Hostname = text
	case 1:
		a.Info.Username = text
	case 2:
		a.Info.DomainName = text
	case 3:
		a.Info.ProcessName = text
	case 4:
		a.Info.OSVersion = text
	}
	verif_assert(d.AgentAdd(a) == nil, "registering a session persists it")
	d = verifReopen()
	all := d.AgentAll()
	verif_assert(len(all) == 1, "exactly the registered session is restored")
	if len(all) == 1 {
		r := all[0]
		var got string
		switch which {
		case 0:
			got = r.Info.Hostname
		case 1:
			got = r.Info.Username
		case 2:
			got = r.Info.DomainName
		case 3:
			got = r.Info.ProcessName
		case 4:
			got = r.Info.OSVersion
		}
		verif_assert(got == text, "recorded metadata is restored byte for byte")
	}
	verif_assert(verifIdle(d), verifIdleLabel)
	verif_witness()
}
