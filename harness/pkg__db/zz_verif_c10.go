package db

// C10 (narrow slice): the Go side of agent persistence. Inside gosx database/sql is a
// recorder that keys every value by the column name parsed from the SQL text of the current
// source (so a swapped column/argument order is seen) and stores values faithfully; natively
// the same harness runs against a real SQLite file.

import (
	"database/sql"
	"encoding/base64"
	"errors"
	"os"
	"strings"

	"Havoc/pkg/agent"
)

type verifRow map[string]any

var (
	verifTable   []verifRow
	verifStmtSQL = map[*sql.Stmt]string{}
	verifRowsOf  = map[*sql.Rows]*verifCursor{}
)

type verifCursor struct {
	cols []string
	rows []verifRow
	pos  int
	cnt  bool
}

func verifCols(list string) []string {
	var out []string
	for _, c := range strings.Split(list, ",") {
		c = strings.TrimSpace(c)
		if i := strings.Index(c, " "); i >= 0 {
			c = c[:i]
		}
		out = append(out, c)
	}
	return out
}

//verif:stub (*database/sql.DB).Prepare
func verifStubPrepare(d *sql.DB, query string) (*sql.Stmt, error) {
	st := new(sql.Stmt)
	verifStmtSQL[st] = query
	return st, nil
}

//verif:stub (*database/sql.Stmt).Close
func verifStubStmtClose(st *sql.Stmt) error { return nil }

func verifSame(a, b any) bool {
	switch x := a.(type) {
	case int:
		if y, ok := b.(int); ok {
			return x == y
		}
	case string:
		if y, ok := b.(string); ok {
			return x == y
		}
	}
	return false
}

//verif:stub (*database/sql.Stmt).Exec
func verifStubStmtExec(st *sql.Stmt, args ...any) (sql.Result, error) {
	q := verifStmtSQL[st]
	switch {
	case strings.HasPrefix(q, "INSERT INTO TS_Agents"):
		a := strings.Index(q, "(")
		b := strings.Index(q, ")")
		cols := verifCols(q[a+1 : b])
		if len(cols) != len(args) {
			return nil, errors.New("verif: column/argument count mismatch")
		}
		row := verifRow{}
		for i, c := range cols {
			row[c] = args[i]
		}
		verifTable = append(verifTable, row)
	case strings.HasPrefix(q, "UPDATE TS_Agents SET"):
		w := strings.Index(q, " WHERE ")
		sets := strings.Split(q[len("UPDATE TS_Agents SET"):w], ",")
		whereCol := strings.TrimSpace(strings.Split(q[w+len(" WHERE "):], "=")[0])
		if len(sets)+1 != len(args) {
			return nil, errors.New("verif: column/argument count mismatch")
		}
		for _, row := range verifTable {
			if verifSame(row[whereCol], args[len(args)-1]) {
				for i, s := range sets {
					row[strings.TrimSpace(strings.Split(s, "=")[0])] = args[i]
				}
			}
		}
	default:
		return nil, errors.New("verif: statement not modelled: " + q)
	}
	return nil, nil
}

//verif:stub (*database/sql.Stmt).Query
func verifStubStmtQuery(st *sql.Stmt, args ...any) (*sql.Rows, error) {
	q := verifStmtSQL[st]
	r := new(sql.Rows)
	if strings.HasPrefix(q, "SELECT COUNT(*) FROM TS_Agents WHERE") {
		col := strings.TrimSpace(strings.Split(q[strings.Index(q, " WHERE ")+7:], "=")[0])
		n := 0
		for _, row := range verifTable {
			if verifSame(row[col], args[0]) {
				n++
			}
		}
		verifRowsOf[r] = &verifCursor{cnt: true, rows: []verifRow{{"n": n}}}
		return r, nil
	}
	return nil, errors.New("verif: query not modelled: " + q)
}

//verif:stub (*database/sql.DB).Query
func verifStubDBQuery(d *sql.DB, q string, args ...any) (*sql.Rows, error) {
	r := new(sql.Rows)
	if strings.HasPrefix(q, "SELECT ") && strings.Contains(q, " FROM TS_Agents WHERE Active = 1") {
		cols := verifCols(q[len("SELECT "):strings.Index(q, " FROM ")])
		var rows []verifRow
		for _, row := range verifTable {
			if verifSame(row["Active"], 1) {
				rows = append(rows, row)
			}
		}
		verifRowsOf[r] = &verifCursor{cols: cols, rows: rows}
		return r, nil
	}
	return nil, errors.New("verif: query not modelled: " + q)
}

//verif:stub (*database/sql.Rows).Next
func verifStubRowsNext(r *sql.Rows) bool {
	c := verifRowsOf[r]
	if c == nil {
		return false
	}
	return c.pos < len(c.rows)
}

//verif:stub (*database/sql.Rows).Close
func verifStubRowsClose(r *sql.Rows) error { return nil }

//verif:stub (*database/sql.Rows).Scan
func verifStubRowsScan(r *sql.Rows, dest ...any) error {
	c := verifRowsOf[r]
	row := c.rows[c.pos]
	c.pos++
	if c.cnt {
		*(dest[0].(*int)) = row["n"].(int)
		return nil
	}
	if len(dest) != len(c.cols) {
		return errors.New("verif: scan destination count mismatch")
	}
	for i, col := range c.cols {
		v := row[col]
		switch d := dest[i].(type) {
		case *int:
			switch x := v.(type) {
			case int:
				*d = x
			case int64:
				*d = int(x)
			case int32:
				*d = int(x)
			default:
				return errors.New("verif: type mismatch for column " + col)
			}
		case *int64:
			switch x := v.(type) {
			case int64:
				*d = x
			case int:
				*d = int64(x)
			default:
				return errors.New("verif: type mismatch for column " + col)
			}
		case *int32:
			switch x := v.(type) {
			case int32:
				*d = x
			case int:
				*d = int32(x)
			default:
				return errors.New("verif: type mismatch for column " + col)
			}
		case *string:
			x, ok := v.(string)
			if !ok {
				return errors.New("verif: type mismatch for column " + col)
			}
			*d = x
		}
	}
	return nil
}

// base64 as an injective, reversible text encoding (inside gosx only)
//
//verif:stub (*encoding/base64.Encoding).EncodeToString
func verifStubB64Enc(e *base64.Encoding, src []byte) string { return "b64:" + string(src) }

//verif:stub (*encoding/base64.Encoding).DecodeString
func verifStubB64Dec(e *base64.Encoding, s string) ([]byte, error) {
	if !strings.HasPrefix(s, "b64:") {
		return nil, errors.New("verif: not base64")
	}
	return []byte(s[4:]), nil
}

func verifOpenDB() *DB {
	if verif_symbolic() {
		verifTable = nil
		return &DB{db: new(sql.DB), existed: false}
	}
	dir, err := os.MkdirTemp("", "verifdb")
	if err != nil {
		panic(err)
	}
	d, err := DatabaseNew(dir + "/ts.db")
	if err != nil {
		panic(err)
	}
	return d
}

func verifWord(name string, n int) string {
	b := nondet_bytes(name, n)
	for _, c := range b {
		// letters only: text that looks numeric is rewritten by SQLite's column affinity, which
		// this slice does not model (stated in DESIGN.md C10)
		verif_assume(c >= 'a')
		verif_assume(c <= 'z')
	}
	return string(b)
}

func verifHex8(id uint32) string {
	const hexd = "0123456789abcdef"
	b := make([]byte, 8)
	for i := 0; i < 8; i++ {
		b[i] = hexd[(id>>uint(28-4*i))&15]
	}
	return string(b)
}

// H_c10_agent_roundtrip: an acknowledged registration is restored with the same id, key, IV
// and recorded metadata; after its death it is not restored.
func H_c10_agent_roundtrip() {
	d := verifOpenDB()
	// top byte arbitrary (ids >= 0x80000000 included), low 24 bits fixed
	id := uint32(nondet_u8("id-top"))<<24 | 0x00a1b2c3
	a := &agent.Agent{NameID: verifHex8(id), Active: true, Info: new(agent.AgentInfo)}
	a.Encryption.AESKey = nondet_bytes("key", 2)
	a.Encryption.AESIv = nondet_bytes("iv", 2)
	a.Info.Hostname = verifWord("hostname", 1+nondet_choice("hostname-len", 2))
	a.Info.Username = verifWord("username", 1)
	a.Info.DomainName = verifWord("domain", 1)
	a.Info.ExternalIP = "e"
	a.Info.InternalIP = "i"
	a.Info.ProcessName = verifWord("procname", 1)
	a.Info.ProcessArch = "x"
	a.Info.Elevated = "t"
	a.Info.OSVersion = "o"
	a.Info.OSArch = "r"
	a.Info.FirstCallIn = "f"
	a.Info.LastCallIn = "l"
	a.Info.BaseAddress = int64(nondet_u32("base"))
	a.Info.ProcessPID = int(nondet_u16("pid"))
	a.Info.ProcessTID = int(nondet_u16("tid"))
	a.Info.ProcessPPID = int(nondet_u16("ppid"))
	a.Info.SleepDelay = int(nondet_u16("sleep"))
	a.Info.SleepJitter = int(nondet_u8("jitter"))
	a.Info.KillDate = int64(nondet_u32("killdate"))
	a.Info.WorkingHours = int32(nondet_u16("hours"))

	err := d.AgentAdd(a)
	verif_assert(err == nil, "registering a session persists it (every 32-bit id)")
	all := d.AgentAll()
	verif_assert(len(all) == 1, "exactly the registered session is restored")
	if len(all) == 1 {
		r := all[0]
		verif_assert(r.NameID == a.NameID, "restored id")
		verif_assert(string(r.Encryption.AESKey) == string(a.Encryption.AESKey), "restored key")
		verif_assert(string(r.Encryption.AESIv) == string(a.Encryption.AESIv), "restored IV")
		verif_assert(r.Info.Hostname == a.Info.Hostname, "restored Hostname")
		verif_assert(r.Info.Username == a.Info.Username, "restored Username")
		verif_assert(r.Info.DomainName == a.Info.DomainName, "restored DomainName")
		verif_assert(r.Info.ExternalIP == "e", "restored ExternalIP")
		verif_assert(r.Info.InternalIP == "i", "restored InternalIP")
		verif_assert(r.Info.ProcessName == a.Info.ProcessName, "restored ProcessName")
		verif_assert(r.Info.ProcessArch == "x", "restored ProcessArch")
		verif_assert(r.Info.Elevated == "t", "restored Elevated")
		verif_assert(r.Info.OSVersion == "o", "restored OSVersion")
		verif_assert(r.Info.OSArch == "r", "restored OSArch")
		verif_assert(r.Info.FirstCallIn == "f", "restored FirstCallIn")
		verif_assert(r.Info.LastCallIn == "l", "restored LastCallIn")
		verif_assert(r.Info.BaseAddress == a.Info.BaseAddress, "restored BaseAddress")
		verif_assert(r.Info.ProcessPID == a.Info.ProcessPID, "restored ProcessPID")
		verif_assert(r.Info.ProcessTID == a.Info.ProcessTID, "restored ProcessTID")
		verif_assert(r.Info.ProcessPPID == a.Info.ProcessPPID, "restored ProcessPPID")
		verif_assert(r.Info.SleepDelay == a.Info.SleepDelay, "restored SleepDelay")
		verif_assert(r.Info.SleepJitter == a.Info.SleepJitter, "restored SleepJitter")
		verif_assert(r.Info.KillDate == a.Info.KillDate, "restored KillDate")
		verif_assert(r.Info.WorkingHours == a.Info.WorkingHours, "restored WorkingHours")
		verif_assert(r.Active, "restored sessions are active")
	}
	// metadata update is written to the row of the same id
	a.Info.Hostname = "zz"
	a.Info.SleepDelay = 77
	verif_assert(d.AgentUpdate(a) == nil, "updating a persisted session succeeds")
	all = d.AgentAll()
	verif_assert(len(all) == 1, "an update neither adds nor removes a session")
	if len(all) == 1 {
		verif_assert(all[0].Info.Hostname == "zz", "updated Hostname is persisted")
		verif_assert(all[0].Info.SleepDelay == 77, "updated SleepDelay is persisted")
		verif_assert(all[0].Info.Username == a.Info.Username, "an update leaves the other fields")
	}
	// death
	a.Active = false
	a.Reason = "dead"
	verif_assert(d.AgentUpdate(a) == nil, "marking a persisted session dead succeeds")
	verif_assert(len(d.AgentAll()) == 0, "dead agents are not restored")
	verif_witness()
}
