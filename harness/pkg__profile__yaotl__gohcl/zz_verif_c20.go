package gohcl

import (
	hcl "Havoc/pkg/profile/yaotl"
	"Havoc/pkg/profile/yaotl/hclsyntax"
	"Havoc/pkg/profile/yaotl/hclwrite"
)

type verifEncUser struct {
	Name     string `yaotl:"Name,label"`
	Password string `yaotl:"Password"`
}

type verifEncCfg struct {
	Host  string         `yaotl:"Host"`
	Port  int            `yaotl:"Port"`
	Tags  []string       `yaotl:"Tags"`
	Flag  bool           `yaotl:"Flag"`
	Users []verifEncUser `yaotl:"user,block"`
}

func verifText7(name string, n int) string {
	b := nondet_bytes(name, n)
	for _, c := range b {
		verif_assume(c < 0x80)
	}
	return string(b)
}

// H_c20_encode: a configuration written by the writer from a Go value (gohcl.EncodeIntoBody)
// is a valid file that decodes back (gohcl.DecodeBody) to the same value: strings and block
// labels of 0..1 (thorough 0..2) arbitrary 7-bit characters (quotes, backslashes, template markers, control
// characters), a number, a flag, a list, repeated labelled blocks.
func H_c20_encode() {
	hclsyntax.VerifRuneSeg = true
	maxLen := verif_bound("encode-text-maxlen", 1, 2)
	slice := nondet_choice("field-x-length", 3*(maxLen+1)) // first choice: partition for sharding
	which := slice % 3
	s := verifText7("text", slice/3)
	pf := nondet_choice("port-and-flag", 2)
	cfg := verifEncCfg{Host: "h", Port: []int{0, 65535}[pf], Tags: []string{"t1", "t2"}, Flag: pf == 1,
		Users: []verifEncUser{{Name: "u1", Password: "p1"}, {Name: "u2", Password: "p2"}}}
	switch which {
	case 0:
		cfg.Host = s
	case 1:
		cfg.Tags[1] = s
	case 2:
		cfg.Users[1].Name = s
		cfg.Users[0].Password = s
	}
	f := hclwrite.NewEmptyFile()
	EncodeIntoBody(&cfg, f.Body())
	out := f.Bytes()
	sf, diags := hclsyntax.ParseConfig(out, "f", hcl.Pos{Byte: 0, Line: 1, Column: 1})
	verif_assert(!diags.HasErrors(), "the written file is a valid file")
	if diags.HasErrors() {
		return
	}
	var back verifEncCfg
	dd := DecodeBody(sf.Body, nil, &back)
	verif_assert(!dd.HasErrors(), "the written file decodes")
	if dd.HasErrors() {
		return
	}
	verif_assert(back.Host == cfg.Host, "string attribute survives writing and reading")
	verif_assert(back.Port == cfg.Port, "number attribute survives writing and reading")
	verif_assert(back.Flag == cfg.Flag, "flag survives writing and reading")
	verif_assert(len(back.Tags) == 2, "list length survives writing and reading")
	if len(back.Tags) == 2 {
		verif_assert(back.Tags[0] == cfg.Tags[0], "list element survives writing and reading")
		verif_assert(back.Tags[1] == cfg.Tags[1], "list element survives writing and reading")
	}
	verif_assert(len(back.Users) == 2, "repeated blocks survive writing and reading")
	if len(back.Users) == 2 {
		for k := 0; k < 2; k++ {
			verif_assert(back.Users[k].Name == cfg.Users[k].Name, "block label survives writing and reading")
			verif_assert(back.Users[k].Password == cfg.Users[k].Password, "block attribute survives writing and reading")
		}
	}
	verif_witness()
}
