package packager

import (
	stdjson "encoding/json"
	"errors"
)

// encoding/json.Unmarshal of text from an unauthenticated peer: it either fails (any text
// that is not a JSON object of the Package shape) or fills the Package; which of the two is
// open for every text.
//
//verif:stub encoding/json.Unmarshal
func verifStubJSONUnmarshal(data []byte, v any) error {
	switch nondet_choice("decoding", 3) {
	case 1:
		return errors.New("json: cannot unmarshal")
	case 2:
		// a syntax error at any offset of the text (offsets count from 1, as encoding/json does)
		off := nondet_choice("syntax-error-offset", len(data)+2)
		return &stdjson.SyntaxError{Offset: int64(off)}
	}
	if p, ok := v.(*Package); ok {
		p.Head.Event = int(nondet_i32("event"))
	}
	return nil
}

// H_c06_create_package: decoding the first (pre-authentication) message never crashes,
// whatever its length (empty, shorter or longer than any prefix the code may want to quote)
// and whether or not it is JSON.
func H_c06_create_package() {
	n := []int{0, 1, 2, 31, 32, 63, 64, 65, 200}[nondet_choice("length", 9)]
	msg := make([]byte, n)
	for i := range msg {
		msg[i] = '{'
	}
	if n > 0 {
		msg[0] = nondet_u8("first-byte")
	}
	p := NewPackager()
	pk := p.CreatePackage(string(msg))
	_ = pk
	verif_witness()
}
