package crypt

// VERIF STUB (replaces pkg/common/crypt/aes.go in harness overlays that say so):
// AES-256-CTR is modelled by its contract as a position-wise involution that keeps the
// length; here the identity. Used by harnesses whose obligations do not depend on
// confidentiality (C01, C03, C05, C09); the same replacement is used in the native
// replay so that symbolic and native runs see the same bytes.
func XCryptBytesAES256(XBytes []byte, AESKey []byte, AESIv []byte) []byte {
	var ReverseXBytes = make([]byte, len(XBytes))
	copy(ReverseXBytes, XBytes)
	return ReverseXBytes
}
