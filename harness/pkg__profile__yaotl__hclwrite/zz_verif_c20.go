package hclwrite

import (
	hcl "Havoc/pkg/profile/yaotl"
	"Havoc/pkg/profile/yaotl/hclsyntax"

	"github.com/zclconf/go-cty/cty"
)

// verifSources: small well-formed files covering the token kinds the writer has to carry:
// comments of the three styles, labelled and nested blocks, lists, objects, templates with
// interpolation and directives, heredocs (plain and indented), odd spacing and tabs.
var verifSources = []string{
	"# c\nA \"l\" {\n  k   = \"v${1}w\" // t\n\n  B {\n\tn = [1,  \"x\"]\n  }\n}\n",
	"k = {a = 1, \"b\" = f(2, x...)} /* m */\nm = <<E\n t${a}\nE\nq=a ? b.c[0] : d.*.e\n",
	"k = \"%{if a}x%{else}y%{endif}\"\nh = <<-E\n  a\n  E\nz = [for i, v in l: v if i]\n",
}

func verifNoBlanks(b []byte) []byte {
	var out []byte
	for _, c := range b {
		if c != ' ' {
			if c != '\t' {
				out = append(out, c)
			}
		}
	}
	return out
}

func verifSameText(a, b []byte, label string) {
	verif_assert(len(a) == len(b), label+" (length)")
	if len(a) == len(b) {
		for k := range a {
			verif_assert(a[k] == b[k], label)
		}
	}
}

// verifRewriteCheck: what C20 states for one syntactically valid source text.
func verifRewriteCheck(src []byte) {
	hclsyntax.VerifRuneSeg = true // column counting must be a function of the text (see the stub)
	start := hcl.Pos{Byte: 0, Line: 1, Column: 1}
	_, sdiags := hclsyntax.ParseConfig(src, "f", start)
	if sdiags.HasErrors() {
		return // C20 speaks about syntactically valid files
	}
	f, diags := ParseConfig(src, "f", start)
	verif_assert(!diags.HasErrors(), "a valid file loads into the writer")
	if diags.HasErrors() {
		return
	}
	// the tokens as loaded (File.Bytes/WriteTo additionally format them)
	out := f.inTree.children.BuildTokens(nil).Bytes()
	verif_assert(len(out) == len(src), "serialising the loaded tokens reproduces the input (length)")
	if len(out) == len(src) {
		for k := range src {
			same := out[k] == src[k]
			if src[k] == '\t' {
				if out[k] == ' ' {
					same = true // a tab between tokens comes back as a space
				}
			}
			verif_assert(same, "serialising the loaded tokens reproduces the input byte for byte")
		}
	}
	// formatting
	once := Format(src)
	verifSameText(verifNoBlanks(once), verifNoBlanks(src), "formatting changes nothing but spaces and tabs")
	twice := Format(once)
	verifSameText(twice, once, "formatting is idempotent")
	_, fdiags := hclsyntax.ParseConfig(once, "f", start)
	verif_assert(!fdiags.HasErrors(), "the formatted file is still valid")
}

// H_c20_short: every byte string of length 0..L that is a valid file.
func H_c20_short() {
	q := nondet_choice("quadrant", 4)
	L := nondet_choice("L", verif_bound("rewrite-maxL", 2, 3)+1)
	src := nondet_bytes("src", L)
	if L == 0 {
		verif_assume(q == 0)
	} else {
		verif_assume(int(src[0]>>6) == q)
	}
	verifRewriteCheck(src)
	verif_witness()
}

// H_c20_mutate: every single-byte mutation (any position, any value) of the sources above
// that is still a valid file.
func H_c20_mutate() {
	nsrc := len(verifSources)
	slice := nondet_choice("source-x-quarter", nsrc*4)
	k, q := slice/4, slice%4
	src := []byte(verifSources[k])
	lo, hi := q*len(src)/4, (q+1)*len(src)/4
	p := lo + nondet_choice("position", hi-lo)
	src[p] = nondet_u8("byte")
	verifRewriteCheck(src)
	verif_witness()
}

const verifEditSrc = "# c\n\na = 1\nb \"l\" {\n  x = 2\n}\nc = 3 // t\n"

// verifText: n arbitrary 7-bit characters (quotes, backslashes, template markers, newlines
// and other control characters included)
func verifText(name string, n int) string {
	b := nondet_bytes(name, n)
	for _, c := range b {
		verif_assume(c < 0x80)
	}
	return string(b)
}

// verifNumAttr evaluates attribute name of body and checks it is the number want.
func verifNumAttr(body *hclsyntax.Body, name string, want int64, label string) {
	a := body.Attributes[name]
	verif_assert(a != nil, label+" (present)")
	if a == nil {
		return
	}
	v, d := a.Expr.Value(nil)
	verif_assert(!d.HasErrors(), label+" (evaluates)")
	verif_assert(v.Type() == cty.Number, label+" (number)")
	if v.Type() == cty.Number {
		verif_assert(v.RawEquals(cty.NumberIntVal(want)), label)
	}
}

// H_c20_edit: programmatic edits do what they say: one edit (set an existing or a new
// attribute to an arbitrary string value, remove an existing or an unknown attribute, append
// a block with an arbitrary label, remove a block) on a file with comments, attributes and a
// block; the serialised result re-parses without error and shows that change and no other.
func H_c20_edit() {
	hclsyntax.VerifRuneSeg = true
	start := hcl.Pos{Byte: 0, Line: 1, Column: 1}
	f, diags := ParseConfig([]byte(verifEditSrc), "f", start)
	verif_assume(!diags.HasErrors())
	body := f.Body()
	op := nondet_choice("edit", 6)
	s := verifText("text", nondet_choice("text-len", verif_bound("edit-text-maxlen", 2, 3)+1))
	switch op {
	case 0:
		body.SetAttributeValue("a", cty.StringVal(s))
	case 1:
		body.SetAttributeValue("n", cty.StringVal(s))
	case 2:
		body.RemoveAttribute("a")
	case 3:
		body.RemoveAttribute("zz")
	case 4:
		body.AppendNewBlock("nb", []string{s})
	case 5:
		verif_assert(body.RemoveBlock(body.Blocks()[0]), "an existing block can be removed")
	}
	out := f.Bytes()
	sf, sdiags := hclsyntax.ParseConfig(out, "f", start)
	verif_assert(!sdiags.HasErrors(), "the edited file is still a valid file")
	if sdiags.HasErrors() {
		return
	}
	nb := sf.Body.(*hclsyntax.Body)
	wantAttrs, wantBlocks := 2, 1
	// untouched items
	verifNumAttr(nb, "c", 3, "an untouched attribute keeps its value")
	if op != 0 {
		if op != 2 {
			verifNumAttr(nb, "a", 1, "an untouched attribute keeps its value")
		}
	}
	if op != 5 {
		verif_assert(len(nb.Blocks) >= 1, "an untouched block stays")
		if len(nb.Blocks) >= 1 {
			b := nb.Blocks[0]
			verif_assert(b.Type == "b", "an untouched block keeps its type")
			verif_assert(len(b.Labels) == 1, "an untouched block keeps its labels")
			if len(b.Labels) == 1 {
				verif_assert(b.Labels[0] == "l", "an untouched block keeps its label")
			}
			verifNumAttr(b.Body, "x", 2, "an untouched nested attribute keeps its value")
		}
	}
	// the change
	switch op {
	case 0, 1:
		name := "a"
		if op == 1 {
			name = "n"
			wantAttrs = 3
		}
		a := nb.Attributes[name]
		verif_assert(a != nil, "the attribute that was set is present")
		if a != nil {
			v, d := a.Expr.Value(nil)
			verif_assert(!d.HasErrors(), "the value that was set evaluates")
			verif_assert(v.Type() == cty.String, "the value that was set is a string")
			if v.Type() == cty.String {
				verif_assert(v.AsString() == s, "the attribute has exactly the value that was set")
			}
		}
	case 2:
		wantAttrs = 1
		verif_assert(nb.Attributes["a"] == nil, "a removed attribute is gone")
	case 4:
		wantBlocks = 2
		if len(nb.Blocks) == 2 {
			b := nb.Blocks[1]
			verif_assert(b.Type == "nb", "the appended block has its type")
			verif_assert(len(b.Labels) == 1, "the appended block has one label")
			if len(b.Labels) == 1 {
				verif_assert(b.Labels[0] == s, "the appended block has exactly the label given")
			}
		}
	case 5:
		wantBlocks = 0
	}
	verif_assert(len(nb.Attributes) == wantAttrs, "no other attribute appears or disappears")
	verif_assert(len(nb.Blocks) == wantBlocks, "no other block appears or disappears")
	// comments of untouched items are preserved
	verif_assert(verifContains(out, "# c\n"), "a free-standing comment is preserved")
	verif_assert(verifContains(out, "// t\n"), "the line comment of an untouched attribute is preserved")
	verif_witness()
}

func verifContains(hay []byte, needle string) bool {
	for i := 0; i+len(needle) <= len(hay); i++ {
		ok := true
		for k := 0; k < len(needle); k++ {
			if hay[i+k] != needle[k] {
				ok = false
				break
			}
		}
		if ok {
			return true
		}
	}
	return false
}
