package hclwrite

import (
	hcl "Havoc/pkg/profile/yaotl"
	"Havoc/pkg/profile/yaotl/hclsyntax"

	"github.com/zclconf/go-cty/cty"
)

// verifSources: small well-formed files covering the token kinds the writer has to carry:
// comments of the three styles, labelled and nested blocks, lists, objects, templates with
// interpolation and directives, heredocs (plain and indented), odd spacing and tabs.
var verifSources = []string{
	"# c\nA \"l\" {\n  k   = \"v${1}w\" // t\n\n  B {\n\tn = [1,  \"x\"]\n  }\n}\n",
	"k = {a = 1, \"b\" = f(2, x...)} /* m */\nm = <<E\n t${a}\nE\nq=a ? b.c[0] : d.*.e\n",
	"k = \"%{if a}x%{else}y%{endif}\"\nh = <<-E\n  a\n  E\nz = [for i, v in l: v if i]\n",
	"m = <<E\n${s} t\nE\nn = <<-E\n  %{if t}y%{endif}\n    ${s}\n  E\nq = \"${s}\"\n",
	"A {\n  x = 1\n} /* e */\nb = l[true]\nC /* c */ \"l\" {}\nD {} # d\nE /* c */ l {\n}\n",
}

// variables for evaluating the sources' attribute values before and after a rewrite
func verifEvalCtx() *hcl.EvalContext {
	return &hcl.EvalContext{Variables: map[string]cty.Value{
		"s": cty.StringVal("S"),
		"t": cty.True,
		"a": cty.True,
		"i": cty.True,
		"l": cty.TupleVal([]cty.Value{cty.NumberIntVal(1), cty.NumberIntVal(2)}),
		"b": cty.ObjectVal(map[string]cty.Value{"c": cty.TupleVal([]cty.Value{cty.NumberIntVal(7)})}),
		"d": cty.TupleVal([]cty.Value{cty.ObjectVal(map[string]cty.Value{"e": cty.NumberIntVal(8)})}),
	}}
}

// verifSameValues: every attribute of body a that evaluates evaluates to the same value in
// body b (same attributes, same nested blocks in the same order).
func verifSameValues(a, b *hclsyntax.Body, ctx *hcl.EvalContext) {
	verif_assert(len(a.Attributes) == len(b.Attributes), "the formatted file has the same attributes")
	verif_assert(len(a.Blocks) == len(b.Blocks), "the formatted file has the same blocks")
	for name, attr := range a.Attributes {
		other := b.Attributes[name]
		verif_assert(other != nil, "the formatted file has the same attributes (by name)")
		if other == nil {
			continue
		}
		v1, d1 := attr.Expr.Value(ctx)
		if d1.HasErrors() {
			continue
		}
		v2, d2 := other.Expr.Value(ctx)
		verif_assert(!d2.HasErrors(), "a value that evaluated before formatting evaluates after it")
		if d2.HasErrors() {
			continue
		}
		if v1.IsWhollyKnown() {
			verif_assert(v2.RawEquals(v1), "the formatted file decodes to the same values")
		}
	}
	if len(a.Blocks) == len(b.Blocks) {
		for k := range a.Blocks {
			verif_assert(a.Blocks[k].Type == b.Blocks[k].Type, "the formatted file has the same blocks, in order")
			verifSameValues(a.Blocks[k].Body, b.Blocks[k].Body, ctx)
		}
	}
}

func verifNoBlanks(b []byte) []byte {
	var out []byte
	for _, c := range b {
		if c != ' ' {
			if c != '\t' {
				out = append(out, c)
			}
		}
	}
	return out
}

func verifSameText(a, b []byte, label string) {
	verif_assert(len(a) == len(b), label+" (length)")
	if len(a) == len(b) {
		for k := range a {
			verif_assert(a[k] == b[k], label)
		}
	}
}

// verifRewriteCheck: what C20 states for one syntactically valid source text.
func verifRewriteCheck(src []byte) {
	hclsyntax.VerifRuneSeg = true // column counting must be a function of the text (see the stub)
	start := hcl.Pos{Byte: 0, Line: 1, Column: 1}
	sfile, sdiags := hclsyntax.ParseConfig(src, "f", start)
	if sdiags.HasErrors() {
		return // C20 speaks about syntactically valid files
	}
	f, diags := ParseConfig(src, "f", start)
	verif_assert(!diags.HasErrors(), "a valid file loads into the writer")
	if diags.HasErrors() {
		return
	}
	// the tokens as loaded (File.Bytes/WriteTo additionally format them)
	out := f.inTree.children.BuildTokens(nil).Bytes()
	bom := false
	if len(src) >= 3 {
		if src[0] == 0xef {
			if src[1] == 0xbb {
				if src[2] == 0xbf {
					bom = true
				}
			}
		}
	}
	verif_assert(len(out) == len(src), "serialising the loaded tokens reproduces the input (length)")
	if len(out) == len(src) {
		for k := range src {
			same := out[k] == src[k]
			if src[k] == '\t' {
				if out[k] == ' ' {
					same = true // a tab between tokens comes back as a space
				}
			}
			if bom && k < 3 {
				// known finding: the scanner strips a leading byte-order mark and the writer
				// turns the three bytes into three spaces (own label, so that nothing else hides
				// behind the finding)
				verif_assert(same, "serialising the loaded tokens reproduces a leading byte-order mark")
			} else {
				verif_assert(same, "serialising the loaded tokens reproduces the input byte for byte")
			}
		}
	}
	// formatting
	once := Format(src)
	verifSameText(verifNoBlanks(once), verifNoBlanks(src), "formatting changes nothing but spaces and tabs")
	twice := Format(once)
	verifSameText(twice, once, "formatting is idempotent")
	ffile, fdiags := hclsyntax.ParseConfig(once, "f", start)
	verif_assert(!fdiags.HasErrors(), "the formatted file is still valid")
	if !fdiags.HasErrors() {
		verifSameValues(sfile.Body.(*hclsyntax.Body), ffile.Body.(*hclsyntax.Body), verifEvalCtx())
	}
}

// H_c20_short: every byte string of length 0..L that is a valid file.
func H_c20_short() {
	q := nondet_choice("quadrant", 5)
	if q == 4 {
		// the one 3-byte input the quick tier looks at as well: a file that is just the UTF-8
		// byte-order mark (the recorded known finding; the thorough tier meets it among all
		// 3-byte inputs)
		verifRewriteCheck([]byte{0xEF, 0xBB, 0xBF})
		verif_witness()
		return
	}
	L := nondet_choice("L", verif_bound("rewrite-maxL", 2, 3)+1)
	src := nondet_bytes("src", L)
	if L == 0 {
		verif_assume(q == 0)
	} else {
		verif_assume(int(src[0]>>6) == q)
	}
	verifRewriteCheck(src)
	verif_witness()
}

// H_c20_mutate: every single-byte mutation (any position, any value) of the sources above
// that is still a valid file.
func H_c20_mutate() {
	nsrc := len(verifSources)
	slice := nondet_choice("source-x-quarter", nsrc*4)
	k, q := slice/4, slice%4
	src := []byte(verifSources[k])
	lo, hi := q*len(src)/4, (q+1)*len(src)/4
	p := lo + nondet_choice("position", hi-lo)
	src[p] = nondet_u8("byte")
	verifRewriteCheck(src)
	verif_witness()
}

const verifEditSrc = "# c\n\na = 1\nb \"l\" {\n  x = 2\n}\nc = 3 // t\n"

// verifText: n arbitrary 7-bit characters (quotes, backslashes, template markers, newlines
// and other control characters included)
func verifText(name string, n int) string {
	b := nondet_bytes(name, n)
	for _, c := range b {
		verif_assume(c < 0x80)
	}
	return string(b)
}

// verifNumAttr evaluates attribute name of body and checks it is the number want.
func verifNumAttr(body *hclsyntax.Body, name string, want int64, label string) {
	a := body.Attributes[name]
	verif_assert(a != nil, label+" (present)")
	if a == nil {
		return
	}
	v, d := a.Expr.Value(nil)
	verif_assert(!d.HasErrors(), label+" (evaluates)")
	verif_assert(v.Type() == cty.Number, label+" (number)")
	if v.Type() == cty.Number {
		verif_assert(v.RawEquals(cty.NumberIntVal(want)), label)
	}
}

// H_c20_edit: programmatic edits do what they say: a sequence of 1..2 edits out
// of {set attribute a, c or a new attribute n to an arbitrary string, remove a, remove c (the
// last item of the body), remove an unknown attribute, append a block with an arbitrary label,
// remove the first block} on a file with comments, attributes and a block; the serialised
// result re-parses without error and shows exactly those changes and no other.
func H_c20_edit() {
	hclsyntax.VerifRuneSeg = true
	start := hcl.Pos{Byte: 0, Line: 1, Column: 1}
	f, diags := ParseConfig([]byte(verifEditSrc), "f", start)
	verif_assume(!diags.HasErrors())
	body := f.Body()
	// the edits are chosen first (the first choice partitions the run for sharding)
	var ops []int
	ops = append(ops, nondet_choice("edit", 8))
	more := nondet_choice("more-edits", verif_bound("edit-sequence-max", 2, 2))
	for k := 0; k < more; k++ {
		ops = append(ops, nondet_choice("edit", 8))
	}
	s := verifText("text", nondet_choice("text-len", verif_bound("edit-text-maxlen", 1, 2)+1))
	// reference state per attribute: 0 absent, 1 original number, 2 the string s
	names := []string{"a", "c", "n"}
	state := []int{1, 1, 0}
	origBlock := true // the block b "l" { x = 2 } is still there
	newBlocks := 0    // blocks nb "<s>" appended
	for _, op := range ops {
		switch op {
		case 0, 1, 2:
			body.SetAttributeValue(names[op], cty.StringVal(s))
			state[op] = 2
		case 3:
			body.RemoveAttribute("a")
			state[0] = 0
		case 4:
			body.RemoveAttribute("c")
			state[1] = 0
		case 5:
			body.RemoveAttribute("zz")
		case 6:
			body.AppendNewBlock("nb", []string{s})
			newBlocks++
		case 7:
			bs := body.Blocks()
			if len(bs) > 0 {
				verif_assert(body.RemoveBlock(bs[0]), "an existing block can be removed")
				if origBlock {
					origBlock = false
				} else {
					newBlocks--
				}
			}
		}
	}
	out := f.Bytes()
	sf, sdiags := hclsyntax.ParseConfig(out, "f", start)
	verif_assert(!sdiags.HasErrors(), "the edited file is still a valid file")
	if sdiags.HasErrors() {
		return
	}
	nb := sf.Body.(*hclsyntax.Body)
	wantAttrs := 0
	for i, name := range names {
		a := nb.Attributes[name]
		switch state[i] {
		case 0:
			verif_assert(a == nil, "an attribute that was removed (or never set) is absent")
		case 1:
			wantAttrs++
			verifNumAttr(nb, name, []int64{1, 3, 0}[i], "an untouched attribute keeps its value")
		case 2:
			wantAttrs++
			verif_assert(a != nil, "the attribute that was set is present")
			if a != nil {
				v, d := a.Expr.Value(nil)
				verif_assert(!d.HasErrors(), "the value that was set evaluates")
				verif_assert(v.Type() == cty.String, "the value that was set is a string")
				if v.Type() == cty.String {
					verif_assert(v.AsString() == s, "the attribute has exactly the value that was set")
				}
			}
		}
	}
	verif_assert(len(nb.Attributes) == wantAttrs, "no other attribute appears or disappears")
	wantBlocks := newBlocks
	if origBlock {
		wantBlocks++
	}
	verif_assert(len(nb.Blocks) == wantBlocks, "no other block appears or disappears")
	if len(nb.Blocks) == wantBlocks {
		k := 0
		if origBlock {
			b := nb.Blocks[0]
			verif_assert(b.Type == "b", "an untouched block keeps its type")
			verif_assert(len(b.Labels) == 1, "an untouched block keeps its labels")
			if len(b.Labels) == 1 {
				verif_assert(b.Labels[0] == "l", "an untouched block keeps its label")
			}
			verifNumAttr(b.Body, "x", 2, "an untouched nested attribute keeps its value")
			k = 1
		}
		for ; k < len(nb.Blocks); k++ {
			b := nb.Blocks[k]
			verif_assert(b.Type == "nb", "an appended block has its type")
			verif_assert(len(b.Labels) == 1, "an appended block has one label")
			if len(b.Labels) == 1 {
				verif_assert(b.Labels[0] == s, "an appended block has exactly the label given")
			}
		}
	}
	// comments of untouched items are preserved
	verif_assert(verifContains(out, "# c\n"), "a free-standing comment is preserved")
	if state[1] == 1 {
		verif_assert(verifContains(out, "// t\n"), "the line comment of an untouched attribute is preserved")
	}
	verif_witness()
}

func verifContains(hay []byte, needle string) bool {
	for i := 0; i+len(needle) <= len(hay); i++ {
		ok := true
		for k := 0; k < len(needle); k++ {
			if hay[i+k] != needle[k] {
				ok = false
				break
			}
		}
		if ok {
			return true
		}
	}
	return false
}

// H_c20_string_value: whatever string a program hands to the writer (quotes, backslashes,
// template markers, control characters followed by characters that look like hex digits, ...),
// the literal it writes reads back as exactly that string - as an attribute value and as a
// block label.
func H_c20_string_value() {
	hclsyntax.VerifRuneSeg = true
	start := hcl.Pos{Byte: 0, Line: 1, Column: 1}
	// slices of the input space (the first choice partitions the run for sharding): strings of
	// length 0, 1, 2, and strings of length 3 by the sixteen-value class of their first
	// character (thorough tier only: a 3-character slice takes 15-30 minutes)
	type slc struct{ n, cls int }
	slices := []slc{{0, -1}, {1, -1}, {2, -1}}
	for c := 0; c < verif_bound("string-value-3-char-first-char-classes", 0, 8); c++ {
		slices = append(slices, slc{3, c})
	}
	pick := nondet_choice("label-x-slice", 2*len(slices))
	asLabel := pick%2 == 1
	sl := slices[pick/2]
	s := verifText("text", sl.n)
	if sl.cls >= 0 {
		verif_assume(int(s[0]>>4) == sl.cls)
	}
	f := NewEmptyFile()
	if asLabel {
		f.Body().AppendNewBlock("b", []string{s})
	} else {
		f.Body().SetAttributeValue("a", cty.StringVal(s))
	}
	out := f.Bytes()
	sf, sdiags := hclsyntax.ParseConfig(out, "f", start)
	verif_assert(!sdiags.HasErrors(), "the written file is a valid file")
	if sdiags.HasErrors() {
		return
	}
	nb := sf.Body.(*hclsyntax.Body)
	if asLabel {
		verif_assert(len(nb.Blocks) == 1, "the written block is there")
		if len(nb.Blocks) == 1 {
			verif_assert(len(nb.Blocks[0].Labels) == 1, "the written block has one label")
			if len(nb.Blocks[0].Labels) == 1 {
				verif_assert(nb.Blocks[0].Labels[0] == s, "a written label reads back as exactly the string given")
			}
		}
	} else {
		a := nb.Attributes["a"]
		verif_assert(a != nil, "the written attribute is there")
		if a != nil {
			v, d := a.Expr.Value(nil)
			verif_assert(!d.HasErrors(), "the written value evaluates")
			verif_assert(v.Type() == cty.String, "the written value is a string")
			if v.Type() == cty.String {
				verif_assert(v.AsString() == s, "a written string reads back as exactly the string given")
			}
		}
	}
	verif_witness()
}
