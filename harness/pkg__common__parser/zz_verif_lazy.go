package parser

// Lazy input buffers (see harness/pkg__common__parser@lazy): VerifLazyBuffer() returns the
// root buffer. Inside gosx it is an empty, growable buffer that the lazy parser variant
// extends on demand; natively it is the materialised buffer of the stored counterexample.

var (
	verifLazyRoot   []byte // identity marker of the root lazy buffer (gosx only)
	VerifLazyBudget = 40   // maximum number of generated fields per path
	verifLazyFields int
)

type verifLazyState struct {
	exhausted bool
}

func VerifLazyBuffer() []byte {
	if verif_symbolic() {
		verifLazyRoot = make([]byte, 0, 1)
		verifLazyFields = 0
		return verifLazyRoot
	}
	// native: rebuild the buffer from the replay inputs, in generation order
	verifLoad()
	var buf []byte
	put32 := func(v uint32, be bool) {
		if be {
			buf = append(buf, byte(v>>24), byte(v>>16), byte(v>>8), byte(v))
		} else {
			buf = append(buf, byte(v), byte(v>>8), byte(v>>16), byte(v>>24))
		}
	}
	for i := range verifInputs {
		in := verifInputs[i]
		switch in.Name {
		case "lz:i32be":
			put32(uint32(in.Value), true)
		case "lz:i32le":
			put32(uint32(in.Value), false)
		case "lz:i64be":
			put32(uint32(in.Value>>32), true)
			put32(uint32(in.Value), true)
		case "lz:i64le":
			put32(uint32(in.Value), false)
			put32(uint32(in.Value>>32), false)
		case "lz:lenbe", "lz:lenle":
			n := verifLazyLens[in.Value]
			put32(uint32(n), in.Name == "lz:lenbe")
			for k := 0; k < n; k++ {
				buf = append(buf, VerifLazyPattern(k))
			}
		case "lz:b":
			buf = append(buf, byte(in.Value))
		default:
			continue
		}
		verifUsed[i] = true
	}
	return buf
}

// lengths a generated length-prefixed field can take (chosen by nondet_choice)
var verifLazyLens = []int{0, 1, 2, 40}

// VerifLazySetLens selects the length alphabet (index in the replay file refers to it).
func VerifLazySetLens(l []int) { verifLazyLens = l }

// VerifLazyPattern is the content of generated length-prefixed fields: "A\0A\0..."
func VerifLazyPattern(i int) byte {
	if i%2 == 0 {
		return 'A'
	}
	return 0
}
