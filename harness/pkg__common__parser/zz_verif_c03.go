package parser

// C03 harnesses for pkg/common/parser: the fixed-width and length-prefixed readers
// decode reference-encoded (Package.c: big-endian, length-prefixed) fields whatever
// follows them, and CanIRead agrees with the readers.

func verifBE32(b []byte) uint32 {
	return uint32(b[0])<<24 | uint32(b[1])<<16 | uint32(b[2])<<8 | uint32(b[3])
}

func verifBE64(b []byte) uint64 {
	return uint64(verifBE32(b))<<32 | uint64(verifBE32(b[4:]))
}

func verifSameBytes(got, want []byte, label string) {
	verif_assert(len(got) == len(want), label+": length")
	for i := range want {
		verif_assert(got[i] == want[i], label+": content")
	}
}

// H_c03_int: ParseInt32 / ParseInt64 / ParseBool / ParsePointer on L arbitrary bytes.
func H_c03_int() {
	which := nondet_choice("which", 4)
	L := nondet_choice("L", verif_bound("parser-buffer-max", 16, 24)+1)
	buf := nondet_bytes("buf", L)
	orig := append([]byte(nil), buf...)
	p := NewParser(buf)
	switch which {
	case 0:
		v := p.ParseInt32()
		if L >= 4 {
			verif_assert(v == int(verifBE32(orig)), "ParseInt32 returns the big-endian value of the leading 4 bytes")
			verifSameBytes(p.Buffer(), orig[4:], "ParseInt32 leaves exactly the remaining bytes")
		} else {
			verif_assert(p.Length() <= L, "ParseInt32 short buffer: cursor stays inside")
		}
	case 1:
		v := p.ParseInt64()
		if L >= 8 {
			verif_assert(v == int64(verifBE64(orig)), "ParseInt64 returns the big-endian value of the leading 8 bytes")
			verifSameBytes(p.Buffer(), orig[8:], "ParseInt64 leaves exactly the remaining bytes")
		} else {
			verif_assert(p.Length() <= L, "ParseInt64 short buffer: cursor stays inside")
		}
	case 2:
		v := p.ParseBool()
		if L >= 4 {
			verif_assert(v == (verifBE32(orig) != 0), "ParseBool returns leading 4 bytes != 0")
			verifSameBytes(p.Buffer(), orig[4:], "ParseBool leaves exactly the remaining bytes")
		} else {
			verif_assert(p.Length() <= L, "ParseBool short buffer: cursor stays inside")
		}
	case 3:
		v := p.ParsePointer()
		if L >= 8 {
			verif_assert(v == int64(verifBE64(orig)), "ParsePointer returns the big-endian value of the leading 8 bytes")
			verifSameBytes(p.Buffer(), orig[8:], "ParsePointer leaves exactly the remaining bytes")
		} else {
			verif_assert(p.Length() <= L, "ParsePointer short buffer: cursor stays inside")
		}
	}
	verif_witness()
}

// H_c03_bytes: ParseBytes on L arbitrary bytes.
func H_c03_bytes() {
	L := nondet_choice("L", verif_bound("parser-bytes-buffer-max", 14, 22)+1)
	buf := nondet_bytes("buf", L)
	orig := append([]byte(nil), buf...)
	p := NewParser(buf)
	got := p.ParseBytes()
	if L >= 4 {
		n := verifBE32(orig)
		if uint64(n) <= uint64(L-4) {
			verif_assert(len(got) == int(n), "ParseBytes returns the announced number of bytes")
			verifSameBytes(got, orig[4:4+int(n)], "ParseBytes returns exactly the announced bytes")
			verifSameBytes(p.Buffer(), orig[4+int(n):], "ParseBytes advances by 4+len")
		} else {
			verif_assert(p.Length() <= L, "ParseBytes oversize: cursor stays inside")
		}
	} else {
		verif_assert(len(got) == 0, "ParseBytes short buffer returns nothing")
	}
	verif_witness()
}

// reference walker for CanIRead
func verifRefCanRead(buf []byte, types []ReadType) (bool, int) {
	pos := 0
	for _, t := range types {
		switch t {
		case ReadInt32, ReadBool:
			if len(buf)-pos < 4 {
				return false, pos
			}
			pos += 4
		case ReadInt64, ReadPointer:
			if len(buf)-pos < 8 {
				return false, pos
			}
			pos += 8
		case ReadBytes:
			if len(buf)-pos < 4 {
				return false, pos
			}
			n := int(verifBE32(buf[pos:]))
			pos += 4
			if len(buf)-pos < n {
				return false, pos
			}
			pos += n
		}
	}
	return true, pos
}

// H_c03_canread: CanIRead(list) <=> every field wholly present; and then the Parse*
// sequence returns the reference values without clamping.
func H_c03_canread() {
	L := nondet_choice("L", verif_bound("parser-canread-buffer-max", 16, 22)+1)
	k := nondet_choice("nfields", 4) // 0..3 fields
	types := make([]ReadType, k)
	for i := range types {
		types[i] = ReadType(nondet_choice("type", 5))
	}
	buf := nondet_bytes("buf", L)
	orig := append([]byte(nil), buf...)
	p := NewParser(buf)
	can := p.CanIRead(types)
	ref, _ := verifRefCanRead(orig, types)
	verif_assert(can == ref, "CanIRead agrees with the reference walker")
	verifSameBytes(p.Buffer(), orig, "CanIRead does not consume")
	if can {
		pos := 0
		for _, t := range types {
			switch t {
			case ReadInt32:
				verif_assert(p.ParseInt32() == int(verifBE32(orig[pos:])), "after CanIRead: ParseInt32 value")
				pos += 4
			case ReadBool:
				verif_assert(p.ParseBool() == (verifBE32(orig[pos:]) != 0), "after CanIRead: ParseBool value")
				pos += 4
			case ReadInt64:
				verif_assert(p.ParseInt64() == int64(verifBE64(orig[pos:])), "after CanIRead: ParseInt64 value")
				pos += 8
			case ReadPointer:
				verif_assert(p.ParsePointer() == int64(verifBE64(orig[pos:])), "after CanIRead: ParsePointer value")
				pos += 8
			case ReadBytes:
				n := int(verifBE32(orig[pos:]))
				verifSameBytes(p.ParseBytes(), orig[pos+4:pos+4+n], "after CanIRead: ParseBytes value")
				pos += 4 + n
			}
			verif_assert(p.Length() == L-pos, "after CanIRead: cursor")
		}
	}
	verif_witness()
}

// H_c03_field_sequence: reading a length-prefixed field as bytes, as text or as UTF-16 text
// (whatever its length, odd ones included) leaves the rest of the packet exactly as it
// arrived: the field that follows decodes to its own bytes and the packet buffer the
// parser was given is not written to.
func H_c03_field_sequence() {
	how := nondet_choice("read-as", 3)
	n := nondet_choice("field-length", verif_bound("field-sequence-text-max", 4, 6)+1)
	wide := nondet_bool("follower-is-64-bit")
	buf := []byte{0, 0, 0, byte(n)}
	buf = append(buf, nondet_bytes("field", n)...)
	follower := nondet_bytes("follower", 8)
	buf = append(buf, follower...)
	orig := append([]byte(nil), buf...)
	p := NewParser(buf)
	switch how {
	case 0:
		verifSameBytes(p.ParseBytes(), orig[4:4+n], "the byte field is returned as sent")
	case 1:
		p.ParseString()
	case 2:
		p.ParseUTF16String()
	}
	verifSameBytes(p.Buffer(), orig[4+n:], "reading a field leaves the following fields as they arrived")
	verifSameBytes(buf, orig, "reading a field does not write to the packet")
	if wide {
		verif_assert(p.ParseInt64() == int64(verifBE64(orig[4+n:])), "the 64-bit field after a text field decodes to its own bytes")
	} else {
		verif_assert(p.ParseInt32() == int(verifBE32(orig[4+n:])), "the 32-bit field after a text field decodes to its own bytes")
	}
	verif_witness()
}
