package json

import (
	stdjson "encoding/json"

	hcl "Havoc/pkg/profile/yaotl"
)

// textseg.ScanGraphemeClusters (generated Unicode state machine) by its contract: with
// atEOF it consumes 0 < n <= len(data) bytes and returns them as the token. ASCII bytes
// are one cluster each unless followed by a combining sequence, which starts with a
// non-ASCII byte; so: an ASCII byte followed by an ASCII byte (or end) is one cluster of
// length 1 (except CR LF, one cluster), anything else is a cluster of nondeterministic
// length in 1..len.
//
//verif:stub github.com/apparentlymart/go-textseg/v13/textseg.ScanGraphemeClusters
func verifStubGrapheme(data []byte, atEOF bool) (int, []byte, error) {
	if len(data) == 0 {
		return 0, nil, nil
	}
	n := 1
	ascii2 := true
	if data[0] >= 0x80 {
		ascii2 = false
	}
	if len(data) > 1 {
		if data[1] >= 0x80 {
			ascii2 = false
		}
		if data[0] == '\r' {
			if data[1] == '\n' {
				return 2, data[:2], nil
			}
		}
	}
	if !ascii2 {
		n = 1 + nondet_choice("grapheme-len", len(data))
	}
	return n, data[:n], nil
}

const verifScanMaxL = 3

// H_c17_json_scan: for every byte string of length 0..5 the JSON scanner terminates without
// panicking; tokens come in source order without overlap, carry exactly the input bytes of
// their range, skip only blanks, end with EOF, and every range lies inside the input.
func H_c17_json_scan() {
	L := nondet_choice("L", verif_bound("json-scan-maxL", verifScanMaxL, 4)+1) // 4 bytes: the slowest of the 4 slices takes about 75 minutes
	src := nondet_bytes("src", L)
	toks := scan(src, pos{Filename: "f", Pos: hclPos1()})
	verif_assert(len(toks) >= 1, "at least the EOF token")
	if len(toks) == 0 {
		return
	}
	prevEnd := 0
	for i, t := range toks {
		s, e := t.Range.Start.Byte, t.Range.End.Byte
		verif_assert(s >= prevEnd, "tokens come in source order without overlap")
		verif_assert(s <= e, "token range is well-formed")
		verif_assert(e <= L, "token range lies inside the input")
		if s < prevEnd || s > e || e > L {
			return
		}
		for k := prevEnd; k < s; k++ {
			c := src[k]
			blank := c == ' ' || c == '\t' || c == '\n' || c == '\r'
			verif_assert(blank, "only blanks are skipped between tokens")
		}
		verif_assert(len(t.Bytes) == e-s, "a token carries as many bytes as its range")
		if len(t.Bytes) == e-s {
			for k := range t.Bytes {
				verif_assert(t.Bytes[k] == src[s+k], "a token carries exactly the input bytes of its range")
			}
		}
		if i == len(toks)-1 {
			verif_assert(t.Type == tokenEOF, "the last token is EOF")
		} else {
			verif_assert(t.Type != tokenEOF, "EOF only at the end")
		}
		prevEnd = e
	}
	last := toks[len(toks)-1]
	if len(toks) >= 2 {
		if toks[len(toks)-2].Type != tokenInvalid {
			verif_assert(last.Range.End.Byte == L, "without an invalid token the scan covers the whole input")
		}
	} else {
		verif_assert(last.Range.End.Byte == L, "an input of blanks only is covered up to its end")
	}
	verif_witness()
}

func hclPos1() hcl.Pos { return hcl.Pos{Byte: 0, Line: 1, Column: 1} }

// encoding/json.Unmarshal as this parser uses it: validating a number token and decoding a
// string token. Over-approximated: the call may fail for any token (both outcomes explored);
// a string token without escape sequences decodes to its content, one with escapes to its raw
// content (structure, not string content, is what the obligations below are about).
//
//verif:stub-if jsonparse encoding/json.Unmarshal
func verifStubJSONUnmarshal(data []byte, v any) error {
	if nondet_bool("token-rejected-by-encoding-json") {
		if _, isString := v.(*string); isString {
			// a string token can only be rejected as malformed JSON text
			// encoding/json reports a syntax error "after reading Offset bytes": 1..len(data)
			// for a non-empty text (len(data) when the text just ends too early)
			// (a solver variable, not a case split: every offset is decided in one query)
			off := nondet_i64("syntax-error-offset")
			if len(data) > 0 {
				verif_assume(off >= 1)
			} else {
				verif_assume(off >= 0)
			}
			verif_assume(off <= int64(len(data)))
			return &stdjson.SyntaxError{Offset: off}
		}
		return verifErrJSON
	}
	if n, ok := v.(*stdjson.Number); ok {
		*n = stdjson.Number(string(data))
		return nil
	}
	if p, ok := v.(*string); ok {
		if len(data) >= 2 {
			*p = string(data[1 : len(data)-1])
		}
		return nil
	}
	verif_fail("json.Unmarshal target not modelled")
	return nil
}

var verifErrJSON = stdjsonError("verif: token rejected")

type stdjsonError string

func (e stdjsonError) Error() string { return string(e) }

const verifJSONSkeleton = "{\"a\":\"x\",\"n\":1.5,\"b\":[{\"c\":true},null,-2e3],\"d\":{}}"

func verifJSONParseCheck(src []byte) {
	L := len(src)
	f, diags := Parse(src, "f")
	verif_assert(f != nil, "Parse always returns a file")
	for _, d := range diags {
		if d.Subject != nil {
			verif_assert(d.Subject.Start.Byte >= 0, "diagnostic range starts inside the input")
			verif_assert(d.Subject.End.Byte <= L, "diagnostic range ends inside the input")
			verif_assert(d.Subject.Start.Byte <= d.Subject.End.Byte, "diagnostic range is not inverted")
		}
	}
	if f != nil {
		if !diags.HasErrors() {
			// an input without error diagnostics can be used as a body without panicking
			attrs, _ := f.Body.JustAttributes()
			for _, a := range attrs {
				verif_assert(a.Range.Start.Byte >= 0, "attribute range starts inside the input")
				verif_assert(a.Range.End.Byte <= L, "attribute range ends inside the input")
				_, vd := a.Expr.Value(nil)
				_ = vd
			}
		}
	}
}

// H_c17_json_parse: the JSON syntax entry point on every byte string of length 0..L and on
// every single-byte mutation of a document with strings, numbers, keywords, arrays and nested
// objects: it returns (no panic, no endless loop) with a body and/or diagnostics, every
// diagnostic and attribute range lies inside the input, and an error-free document can be
// read as attributes and evaluated without panicking.
func H_c17_json_parse() {
	slice := nondet_choice("kind-x-quarter", 8)
	if slice < 4 {
		L := nondet_choice("L", verif_bound("json-parse-maxL", 2, 3)+1)
		src := nondet_bytes("src", L)
		if L == 0 {
			verif_assume(slice == 0)
		} else {
			verif_assume(int(src[0]>>6) == slice)
		}
		verifJSONParseCheck(src)
	} else {
		q := slice - 4
		src := []byte(verifJSONSkeleton)
		lo, hi := q*len(src)/4, (q+1)*len(src)/4
		p := lo + nondet_choice("position", hi-lo)
		src[p] = nondet_u8("byte")
		verifJSONParseCheck(src)
	}
	verif_witness()
}
