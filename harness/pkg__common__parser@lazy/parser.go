package parser

// VERIF VARIANT of pkg/common/parser/parser.go, used only inside gosx by the "lazy"
// harnesses: the code of every reader is the real code (copied verbatim below from the
// working tree by ./check, see LAZY-BEGIN/LAZY-END), preceded by a call that extends the
// buffer on demand with fresh symbolic fields. A path therefore corresponds to the concrete
// buffer "all bytes ever appended", which the native replay feeds to the real parser.

//LAZY-REAL-CODE
