package parser

// gosx-only part of the lazy parser variant: on-demand generation of input fields.

func verifIsLazyRoot(b []byte) bool {
	if cap(b) == 0 || cap(verifLazyRoot) == 0 {
		return false
	}
	return &b[:1][0] == &verifLazyRoot[:1][0]
}

// verifMore decides whether the input continues (true) or ends here for good (false).
func (p *Parser) verifMore() bool {
	if p.lazy.exhausted {
		return false
	}
	if verifLazyFields >= VerifLazyBudget {
		p.lazy.exhausted = true
		return false
	}
	// "the input ends here" is explored first, so that short inputs come before long ones
	if nondet_bool("lz:end") {
		p.lazy.exhausted = true
		return false
	}
	return true
}

func (p *Parser) verifAppend32(v uint32) {
	if p.bigEndian {
		p.buffer = append(p.buffer, byte(v>>24), byte(v>>16), byte(v>>8), byte(v))
	} else {
		p.buffer = append(p.buffer, byte(v), byte(v>>8), byte(v>>16), byte(v>>24))
	}
}

// verifGen appends one fresh field of the given kind to the buffer.
func (p *Parser) verifGen(t ReadType) {
	verifLazyFields++
	sfx := "le"
	if p.bigEndian {
		sfx = "be"
	}
	switch t {
	case ReadInt32, ReadBool:
		p.verifAppend32(nondet_u32("lz:i32" + sfx))
	case ReadInt64, ReadPointer:
		v := nondet_u64("lz:i64" + sfx)
		if p.bigEndian {
			p.verifAppend32(uint32(v >> 32))
			p.verifAppend32(uint32(v))
		} else {
			p.verifAppend32(uint32(v))
			p.verifAppend32(uint32(v >> 32))
		}
	case ReadBytes:
		n := verifLazyLens[nondet_choice("lz:len"+sfx, len(verifLazyLens))]
		p.verifAppend32(uint32(n))
		// content is a fixed pattern (valid both as a C string and as UTF-16LE text): the
		// lazy harness varies structure, lengths and integers; content is varied by the raw
		// and the per-property harnesses
		for i := 0; i < n; i++ {
			p.buffer = append(p.buffer, VerifLazyPattern(i))
		}
	}
}

func verifFieldSize(t ReadType) int {
	switch t {
	case ReadInt64, ReadPointer:
		return 8
	}
	return 4
}

// verifEnsure makes sure the buffer holds a field of kind t at the cursor (unless the input
// has ended); called at the top of every reader.
func (p *Parser) verifEnsure(t ReadType) {
	if p.lazy == nil {
		return
	}
	if len(p.buffer) >= verifFieldSize(t) {
		return // the reader finds bytes that are already there (possibly of another kind)
	}
	if len(p.buffer) > 0 {
		return // a partial field remains: the real reader's clamping applies
	}
	if p.verifMore() {
		p.verifGen(t)
	}
}

func (p *Parser) verifEnsureRaw(n int) {
	if p.lazy == nil {
		return
	}
	if len(p.buffer) >= n || len(p.buffer) > 0 {
		return
	}
	if p.verifMore() {
		verifLazyFields++
		// content is a fixed pattern (valid both as a C string and as UTF-16LE text): the
		// lazy harness varies structure, lengths and integers; content is varied by the raw
		// and the per-property harnesses
		for i := 0; i < n; i++ {
			p.buffer = append(p.buffer, VerifLazyPattern(i))
		}
	}
}

// verifEnsureTypes walks the list the way CanIRead does and generates the missing tail.
// It returns false when the input ends before the list is satisfied.
func (p *Parser) verifEnsureTypes(types []ReadType) bool {
	pos := 0
	for _, t := range types {
		if pos >= len(p.buffer) {
			// nothing there for this field: generate it or end the input
			if !p.verifMore() {
				return false
			}
			p.verifGen(t)
		}
		switch t {
		case ReadBytes:
			if len(p.buffer)-pos < 4 {
				return true // partial data: let the real CanIRead decide
			}
			var n uint32
			if p.bigEndian {
				n = uint32(p.buffer[pos])<<24 | uint32(p.buffer[pos+1])<<16 | uint32(p.buffer[pos+2])<<8 | uint32(p.buffer[pos+3])
			} else {
				n = uint32(p.buffer[pos]) | uint32(p.buffer[pos+1])<<8 | uint32(p.buffer[pos+2])<<16 | uint32(p.buffer[pos+3])<<24
			}
			if uint64(n) > uint64(len(p.buffer)) {
				return true
			}
			pos += 4 + int(n)
		default:
			pos += verifFieldSize(t)
		}
	}
	return true
}
