package common

import (
	"unicode/utf16"
	"unicode/utf8"
)

// reference: decode a whole UTF-16 sequence, then encode as UTF-8
func verifRefUTF16(units []uint16) []byte {
	var out []byte
	buf := make([]byte, 4)
	for _, r := range utf16.Decode(units) {
		n := utf8.EncodeRune(buf, r)
		out = append(out, buf[:n]...)
	}
	return out
}

// H_c03_utf16: well-formed UTF-16 of 0..3 code units (any non-surrogate BMP unit, or a
// high+low surrogate pair) decodes to the reference UTF-8; any bytes (odd lengths, lone
// surrogates) must not panic.
func H_c03_utf16() {
	mode := nondet_choice("mode", 2)
	if mode == 0 {
		// arbitrary bytes: totality only
		L := nondet_choice("L", 8)
		b := nondet_bytes("b", L)
		_ = DecodeUTF16(b)
		verif_witness()
		return
	}
	n := nondet_choice("units", 4)
	var units []uint16
	for len(units) < n {
		if n-len(units) >= 2 {
			if nondet_choice("pair", 2) == 1 {
				hi := nondet_u16("hi")
				lo := nondet_u16("lo")
				verif_assume(hi >= 0xD800)
				verif_assume(hi <= 0xDBFF)
				verif_assume(lo >= 0xDC00)
				verif_assume(lo <= 0xDFFF)
				units = append(units, hi, lo)
				continue
			}
		}
		u := nondet_u16("u")
		if u >= 0xD800 {
			verif_assume(u > 0xDFFF)
		}
		units = append(units, u)
	}
	b := make([]byte, 0, 2*len(units))
	for _, u := range units {
		b = append(b, byte(u), byte(u>>8))
	}
	got := []byte(DecodeUTF16(b))
	want := verifRefUTF16(units)
	verif_assert(len(got) == len(want), "DecodeUTF16 of well-formed UTF-16 has the reference length")
	for i := range want {
		if i < len(got) {
			verif_assert(got[i] == want[i], "DecodeUTF16 of well-formed UTF-16 equals the reference UTF-8")
		}
	}
	verif_witness()
}

// H_c03_stripnull: StripNull removes exactly the leading/trailing NULs.
func H_c03_stripnull() {
	L := nondet_choice("L", 6)
	s := nondet_string("s", L)
	got := StripNull(s)
	lo, hi := 0, L
	for lo < hi {
		if s[lo] != 0 {
			break
		}
		lo++
	}
	for hi > lo {
		if s[hi-1] != 0 {
			break
		}
		hi--
	}
	verif_assert(got == s[lo:hi], "StripNull trims exactly the leading and trailing NUL bytes")
	verif_witness()
}

// verifRune draws one Unicode scalar value of the given UTF-8 length class (1..4 bytes).
func verifRune(class int) rune {
	switch class {
	case 1:
		c := nondet_u8("ascii")
		verif_assume(c >= 1)
		verif_assume(c < 0x80)
		return rune(c)
	case 2:
		v := nondet_u16("r2")
		verif_assume(v >= 0x80)
		verif_assume(v < 0x800)
		return rune(v)
	case 3:
		v := nondet_u16("r3")
		verif_assume(v >= 0x800)
		if v >= 0xD800 {
			verif_assume(v > 0xDFFF)
		}
		return rune(v)
	}
	v := nondet_u32("r4")
	verif_assume(v >= 0x10000)
	verif_assume(v <= 0x10FFFF)
	return rune(v)
}

// H_c02_encode_utf16: the text an operator types reaches the agent as UTF-16LE exactly:
// EncodeUTF16 of 1..2 arbitrary characters of any UTF-8 length class (supplementary-plane
// characters become surrogate pairs) equals the reference encoding followed by the NUL
// terminator.
func H_c02_encode_utf16() {
	n := 1 + nondet_choice("runes", 2)
	var rs []rune
	var in []byte
	buf := make([]byte, 4)
	for i := 0; i < n; i++ {
		r := verifRune(1 + nondet_choice("utf8-length", 4))
		rs = append(rs, r)
		k := utf8.EncodeRune(buf, r)
		in = append(in, buf[:k]...)
	}
	var want []byte
	for _, u := range utf16.Encode(rs) {
		want = append(want, byte(u), byte(u>>8))
	}
	want = append(want, 0, 0)
	got := EncodeUTF16(string(in))
	verif_assert(len(got) == len(want), "EncodeUTF16 has the reference length (text plus terminator)")
	if len(got) == len(want) {
		for i := range want {
			verif_assert(got[i] == want[i], "EncodeUTF16 equals the reference UTF-16LE encoding")
		}
	}
	verif_witness()
}
