package common

import (
	"unicode/utf16"
	"unicode/utf8"
)

// reference: decode a whole UTF-16 sequence, then encode as UTF-8
func verifRefUTF16(units []uint16) []byte {
	var out []byte
	buf := make([]byte, 4)
	for _, r := range utf16.Decode(units) {
		n := utf8.EncodeRune(buf, r)
		out = append(out, buf[:n]...)
	}
	return out
}

// H_c03_utf16: well-formed UTF-16 of 0..3 code units (any non-surrogate BMP unit, or a
// high+low surrogate pair) decodes to the reference UTF-8; any bytes (odd lengths, lone
// surrogates) must not panic.
func H_c03_utf16() {
	mode := nondet_choice("mode", 2)
	if mode == 0 {
		// arbitrary bytes: totality only
		L := nondet_choice("L", 8)
		b := nondet_bytes("b", L)
		_ = DecodeUTF16(b)
		verif_witness()
		return
	}
	n := nondet_choice("units", 4)
	var units []uint16
	for len(units) < n {
		if n-len(units) >= 2 {
			if nondet_choice("pair", 2) == 1 {
				hi := nondet_u16("hi")
				lo := nondet_u16("lo")
				verif_assume(hi >= 0xD800)
				verif_assume(hi <= 0xDBFF)
				verif_assume(lo >= 0xDC00)
				verif_assume(lo <= 0xDFFF)
				units = append(units, hi, lo)
				continue
			}
		}
		u := nondet_u16("u")
		if u >= 0xD800 {
			verif_assume(u > 0xDFFF)
		}
		units = append(units, u)
	}
	b := make([]byte, 0, 2*len(units))
	for _, u := range units {
		b = append(b, byte(u), byte(u>>8))
	}
	got := []byte(DecodeUTF16(b))
	want := verifRefUTF16(units)
	verif_assert(len(got) == len(want), "DecodeUTF16 of well-formed UTF-16 has the reference length")
	for i := range want {
		if i < len(got) {
			verif_assert(got[i] == want[i], "DecodeUTF16 of well-formed UTF-16 equals the reference UTF-8")
		}
	}
	verif_witness()
}

// H_c03_stripnull: StripNull removes exactly the leading/trailing NULs.
func H_c03_stripnull() {
	L := nondet_choice("L", 6)
	s := nondet_string("s", L)
	got := StripNull(s)
	lo, hi := 0, L
	for lo < hi {
		if s[lo] != 0 {
			break
		}
		lo++
	}
	for hi > lo {
		if s[hi-1] != 0 {
			break
		}
		hi--
	}
	verif_assert(got == s[lo:hi], "StripNull trims exactly the leading and trailing NUL bytes")
	verif_witness()
}
