package service

import (
	"errors"
	"hash"

	"github.com/gorilla/websocket"
)

// ---------------------------------------------------------------- websocket as a script

type verifAuthRequest = struct {
	Head struct {
		Type string `json:"Type"`
	} `json:"Head"`

	Body struct {
		Pass string `json:"Password"`
	} `json:"Body"`
}

var (
	verifAuthType   string
	verifAuthPass   string
	verifAuthReadOK bool
	verifReads      int      // messages read after the handshake
	verifWritten    [][]byte // frames written to the connection
	verifFollowUps  int      // scripted follow-up messages before the peer goes away
)

// ReadJSON = json.Unmarshal of arbitrary text into the handshake structure: the harness
// supplies the resulting (arbitrary, well-typed) value, or a decoding error.
//
//verif:stub (*github.com/gorilla/websocket.Conn).ReadJSON
func verifStubReadJSON(c *websocket.Conn, v any) error {
	if !verifAuthReadOK {
		return errors.New("verif: not JSON")
	}
	r, ok := v.(*verifAuthRequest)
	if !ok {
		verif_fail("ReadJSON target not modelled")
		return nil
	}
	r.Head.Type = verifAuthType
	r.Body.Pass = verifAuthPass
	return nil
}

//verif:stub (*github.com/gorilla/websocket.Conn).WriteMessage
func verifStubWriteMessage(c *websocket.Conn, messageType int, data []byte) error {
	verifWritten = append(verifWritten, data)
	return nil
}

//verif:stub (*github.com/gorilla/websocket.Conn).ReadMessage
func verifStubReadMessage(c *websocket.Conn) (int, []byte, error) {
	if verifReads >= verifFollowUps {
		return 0, nil, errors.New("verif: peer went away")
	}
	verifReads++
	return websocket.TextMessage, []byte("{}"), nil
}

var verifDispatched int

// every follow-up message is a request of an unknown kind (dispatch has nothing to do with it)
//
//verif:stub encoding/json.Unmarshal
func verifStubJSONUnmarshal(data []byte, v any) error {
	if m, ok := v.(*map[string]map[string]any); ok {
		verifDispatched++
		(*m)["Head"] = map[string]any{"Type": "Unknown"}
		(*m)["Body"] = map[string]any{}
		return nil
	}
	verif_fail("json.Unmarshal target not modelled")
	return nil
}

// SHA3 as an injective digest (as in the cmd/server harness)
type verifHash struct{ data []byte }

func (h *verifHash) Write(p []byte) (int, error) { h.data = append(h.data, p...); return len(p), nil }
func (h *verifHash) Sum(b []byte) []byte {
	out := make([]byte, 32)
	out[0] = byte(len(h.data))
	for i := 0; i < len(h.data) && i < 31; i++ {
		out[1+i] = h.data[i]
	}
	return append(b, out...)
}
func (h *verifHash) Reset()         { h.data = nil }
func (h *verifHash) Size() int      { return 32 }
func (h *verifHash) BlockSize() int { return 136 }

//verif:stub golang.org/x/crypto/sha3.New256
func verifStubSha3New256() hash.Hash { return &verifHash{} }

// H_c06_service: the service endpoint dispatches nothing before the service password has
// been presented: for an arbitrary first message (undecodable, any request type, the right
// password, a password of 0..2 arbitrary characters) a connection that has not presented the
// password is closed, is not added to the client list, has none of its later messages read
// or dispatched and receives at most the one "Success: false" reply.
func H_c06_service() {
	verifClosedConns = nil
	verifWritten = nil
	verifReads = 0
	verifDispatched = 0
	s := &Service{}
	s.Config.Password = "sp"
	verifAuthReadOK = nondet_bool("first-message-decodes")
	verifAuthType = []string{HeadRegister, HeadRegisterAgent, HeadAgent, "", "register"}[nondet_choice("request-type", 5)]
	switch nondet_choice("password", 3) {
	case 0:
		verifAuthPass = "sp"
	case 1:
		verifAuthPass = string(nondet_bytes("password-text", nondet_choice("password-len", 3)))
	case 2:
		verifAuthPass = "sp" + string(nondet_bytes("password-suffix", 1))
	}
	verifFollowUps = nondet_choice("follow-ups", 3)
	conn := new(websocket.Conn)

	s.handleConnection(conn)

	right := verifAuthReadOK && verifAuthType == HeadRegister && verifAuthPass == "sp"
	if !right {
		verif_assert(verifReads == 0, "no message of a connection that has not presented the service password is read")
		verif_assert(verifDispatched == 0, "nothing is dispatched before the service password has been presented")
		verif_assert(len(s.clients) == 0, "an unauthenticated connection is not registered as a service client")
		verif_assert(len(verifClosedConns) == 1, "an unauthenticated connection is closed")
		verif_assert(len(verifWritten) <= 1, "an unauthenticated connection receives at most the handshake reply")
		verif_assert(len(s.Agents) == 0, "no agent type is registered by an unauthenticated connection")
		verif_assert(len(s.Listeners) == 0, "no listener is registered by an unauthenticated connection")
	} else {
		verif_assert(verifReads == verifFollowUps, "an authenticated service connection has its messages read until it goes away")
		verif_assert(verifDispatched == verifFollowUps, "every message of an authenticated service connection is dispatched")
		verif_assert(len(verifWritten) == 1, "the handshake is answered once")
	}
	verif_no_locks_held("the service handshake leaves no mutex held")
	verif_witness()
}
