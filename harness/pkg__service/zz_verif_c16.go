package service

import (
	"github.com/gorilla/websocket"
)

var verifClosedConns []*websocket.Conn

//verif:stub (*github.com/gorilla/websocket.Conn).Close
func verifStubConnClose(c *websocket.Conn) error {
	verifClosedConns = append(verifClosedConns, c)
	return nil
}

// H_c16_service_close: up to 3 service connections owning 0..3 agent types and 0..3
// listeners (ownership chosen freely); when one connection goes away exactly its
// registrations disappear, everything registered by the others stays, nothing crashes.
func H_c16_service_close() {
	verifClosedConns = nil
	s := &Service{}
	nc := 1 + nondet_choice("clients", 3)
	var cs []*ClientService
	for i := 0; i < nc; i++ {
		c := &ClientService{Responses: map[string]chan []byte{}}
		if verif_symbolic() {
			c.Conn = new(websocket.Conn)
		}
		cs = append(cs, c)
		s.clients = append(s.clients, c)
	}
	na := nondet_choice("agents", 4)
	agentOwner := make([]int, na)
	for i := 0; i < na; i++ {
		agentOwner[i] = nondet_choice("agent-owner", nc)
		s.Agents = append(s.Agents, &AgentService{Name: "agent", MagicValue: "0x1", client: cs[agentOwner[i]], service: s})
	}
	nl := nondet_choice("listeners", 4)
	lOwner := make([]int, nl)
	for i := 0; i < nl; i++ {
		lOwner[i] = nondet_choice("listener-owner", nc)
		s.Listeners = append(s.Listeners, &ListenerService{Name: "l", Agent: "agent", client: cs[lOwner[i]]})
	}
	agentsBefore := append([]*AgentService(nil), s.Agents...)
	listenersBefore := append([]*ListenerService(nil), s.Listeners...)
	k := nondet_choice("closing", nc)

	s.ClientClose(cs[k])

	verif_assert(len(s.clients) == nc-1, "the closed connection leaves the client list, the others stay")
	pos := 0
	for i := 0; i < nc; i++ {
		if i == k {
			continue
		}
		if pos < len(s.clients) {
			verif_assert(s.clients[pos] == cs[i], "other service connections keep their place")
		}
		pos++
	}
	pos = 0
	for i, a := range agentsBefore {
		if agentOwner[i] == k {
			continue
		}
		verif_assert(pos < len(s.Agents), "agent types registered by other connections stay registered")
		if pos < len(s.Agents) {
			verif_assert(s.Agents[pos] == a, "agent types registered by other connections stay registered, in order")
		}
		pos++
	}
	verif_assert(len(s.Agents) == pos, "every agent type registered by the closed connection disappears")
	pos = 0
	for i, l := range listenersBefore {
		if lOwner[i] == k {
			continue
		}
		verif_assert(pos < len(s.Listeners), "listeners registered by other connections stay registered")
		if pos < len(s.Listeners) {
			verif_assert(s.Listeners[pos] == l, "listeners registered by other connections stay registered, in order")
		}
		pos++
	}
	verif_assert(len(s.Listeners) == pos, "every listener registered by the closed connection disappears")
	if verif_symbolic() {
		verif_assert(len(verifClosedConns) == 1, "the closed connection's socket is closed exactly once")
	}
	verif_witness()
}
