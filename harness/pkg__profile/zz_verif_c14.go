package profile

import (
	hcl "Havoc/pkg/profile/yaotl"
	"Havoc/pkg/profile/yaotl/hclsimple"
	"Havoc/pkg/profile/yaotl/hclsyntax"
)

func verifCatP(parts ...any) []byte {
	var out []byte
	for _, p := range parts {
		switch x := p.(type) {
		case string:
			out = append(out, x...)
		case byte:
			out = append(out, x)
		case []byte:
			out = append(out, x...)
		}
	}
	return out
}

func verifPlainP(name string) byte {
	c := nondet_u8(name)
	verif_assume(c >= 0x20)
	verif_assume(c < 0x7f)
	verif_assume(c != '"')
	verif_assume(c != '\\')
	verif_assume(c != '$')
	verif_assume(c != '%')
	return c
}

// H_c14_decode: a small teamserver profile written as a yaotl file loads into HavocConfig
// (the real hclsimple.Decode -> gohcl.DecodeBody path) with exactly the configured values:
// strings with arbitrary characters, a port given as a number or as a string of arbitrary
// digits, block labels, a list, a flag, repeated blocks, in either attribute order.
func H_c14_decode() {
	hclsyntax.VerifRuneSeg = true
	variant := nondet_choice("variant", 4)
	h, u, p := byte('o'), byte('l'), byte('w')
	d1, d2 := byte('4'), byte('0')
	portAsString := false
	switch variant {
	case 0, 1: // arbitrary characters in the strings
		h, u, p = verifPlainP("host-char"), verifPlainP("user-char"), verifPlainP("password-char")
	case 2, 3: // arbitrary digits in the port; 3: the number given as a string
		d1, d2 = nondet_u8("port-digit-1"), nondet_u8("port-digit-2")
		verif_assume(d1 >= '1')
		verif_assume(d1 <= '9')
		verif_assume(d2 >= '0')
		verif_assume(d2 <= '9')
		portAsString = variant == 3
	}
	port := verifCatP(d1, d2)
	if portAsString {
		port = verifCatP("\"", d1, d2, "\"")
	}
	var server []byte
	if variant%2 == 1 {
		server = verifCatP("Teamserver {\n  Port = ", port, "\n  Host = \"h", h, "\"\n}\n")
	} else {
		server = verifCatP("Teamserver {\n  Host = \"h", h, "\"\n  # c\n  Port = ", port, "\n}\n")
	}
	src := verifCatP(server,
		"Operators {\n  user \"a", u, "\" {\n    Password = \"p", p, "\"\n  }\n  user \"second\" {\n    Password = \"x\"\n  }\n}\n",
		"Listeners {\n  Smb {\n    Name = \"s\"\n    PipeName = \"pipe\"\n  }\n",
		"  Http {\n    Name = \"w\"\n    Hosts = [\"a.example\", \"b", h, "\"]\n    HostBind = \"0.0.0.0\"\n    HostRotation = \"random\"\n    PortBind = 443\n    Secure = true\n  }\n}\n")
	var cfg HavocConfig
	err := hclsimple.Decode("p.yaotl", src, nil, &cfg)
	verif_assert(err == nil, "a valid profile loads")
	if err != nil {
		return
	}
	verif_assert(cfg.Server != nil, "the Teamserver block is loaded")
	if cfg.Server != nil {
		verif_assert(cfg.Server.Host == string([]byte{'h', h}), "Teamserver.Host is the configured string")
		verif_assert(cfg.Server.Port == int(d1-'0')*10+int(d2-'0'), "Teamserver.Port is the configured number (written as a number or as a string)")
		verif_assert(cfg.Server.Build == nil, "an absent optional block stays absent")
	}
	verif_assert(cfg.Operators != nil, "the Operators block is loaded")
	if cfg.Operators != nil {
		verif_assert(len(cfg.Operators.Users) == 2, "both user blocks are loaded")
		if len(cfg.Operators.Users) == 2 {
			verif_assert(cfg.Operators.Users[0].Name == string([]byte{'a', u}), "the block label is the user name")
			verif_assert(cfg.Operators.Users[0].Password == string([]byte{'p', p}), "the user's password is the configured string")
			verif_assert(cfg.Operators.Users[1].Name == "second", "repeated blocks keep their order")
			verif_assert(cfg.Operators.Users[1].Password == "x", "repeated blocks keep their own values")
		}
	}
	verif_assert(cfg.Listener != nil, "the Listeners block is loaded")
	if cfg.Listener != nil {
		verif_assert(len(cfg.Listener.ListenerSMB) == 1, "the Smb listener is loaded")
		verif_assert(len(cfg.Listener.ListenerExternal) == 0, "no External listener appears")
		verif_assert(len(cfg.Listener.ListenerHTTP) == 1, "the Http listener is loaded")
		if len(cfg.Listener.ListenerHTTP) == 1 {
			l := cfg.Listener.ListenerHTTP[0]
			verif_assert(l.Name == "w", "listener name")
			verif_assert(len(l.Hosts) == 2, "the host list has both entries")
			if len(l.Hosts) == 2 {
				verif_assert(l.Hosts[0] == "a.example", "first host")
				verif_assert(l.Hosts[1] == string([]byte{'b', h}), "second host")
			}
			verif_assert(l.PortBind == 443, "bind port")
			verif_assert(l.Secure, "the flag is loaded")
			verif_assert(l.PortConn == 0, "an absent optional number stays zero")
			verif_assert(len(l.Uris) == 0, "an absent optional list stays empty")
		}
	}
	verif_assert(cfg.Demon == nil, "an absent block stays absent")
	verif_witness()
}

const verifValidProfile = "Teamserver {\n  Host = \"ho\"\n  Port = 40\n  Build {\n    Nasm = \"n\"\n  }\n}\n" +
	"Operators {\n  user \"al\" {\n    Password = \"pw\"\n  }\n}\n" +
	"Listeners {\n  Http {\n    Name = \"w\"\n    Hosts = [\"a.example\"]\n    HostBind = \"0.0.0.0\"\n    HostRotation = \"random\"\n    PortBind = 443\n  }\n}\n"

// H_c14_reject: single-fault mutations of a valid profile are rejected with an error that has
// a place in the file - never applied without an error, never a crash: a required setting
// omitted (string, number, list; top level and nested), a single block repeated, an unknown
// attribute (with an arbitrary character in its name), an unknown block, a value of the wrong
// kind, a missing or an extra block label. The unmodified profile loads.
func H_c14_reject() {
	hclsyntax.VerifRuneSeg = true
	fault := nondet_choice("fault", 13)
	src := verifValidProfile
	repl := func(old, new string) {
		i := 0
		for ; i+len(old) <= len(src); i++ {
			if src[i:i+len(old)] == old {
				break
			}
		}
		verif_assume(i+len(old) <= len(src))
		src = src[:i] + new + src[i+len(old):]
	}
	// the faulty block may be the last of its kind or be followed by a faultless one
	if nondet_bool("a-second-user-and-listener-follow") {
		repl("  }\n}\nListeners {", "  }\n  user \"bo\" {\n    Password = \"pw\"\n  }\n}\nListeners {")
		repl("    PortBind = 443\n  }\n}\n", "    PortBind = 443\n  }\n  Http {\n    Name = \"v\"\n    Hosts = [\"b.example\"]\n    HostBind = \"0.0.0.0\"\n    HostRotation = \"random\"\n    PortBind = 444\n  }\n}\n")
	}
	c := verifPlainP("name-char")
	switch fault {
	case 0: // no fault
	case 1:
		repl("  Host = \"ho\"\n", "")
	case 2:
		repl("  Port = 40\n", "")
	case 3:
		repl("    Password = \"pw\"\n", "")
	case 4:
		repl("    Hosts = [\"a.example\"]\n", "")
	case 5: // the single Teamserver block twice
		src = src + "Teamserver {\n  Host = \"x\"\n  Port = 1\n}\n"
	case 6: // the single Build block twice
		repl("  Build {\n    Nasm = \"n\"\n  }\n", "  Build {\n    Nasm = \"n\"\n  }\n  Build {\n  }\n")
	case 7: // unknown attribute
		verif_assume((c >= 'a' && c <= 'z') || (c >= 'A' && c <= 'Z'))
		repl("  Port = 40\n", "  Port = 40\n  Z"+string([]byte{c})+" = 1\n")
	case 8: // unknown block
		src = src + "Bogus {\n}\n"
	case 9: // wrong kind: text where a number is required
		repl("  Port = 40\n", "  Port = \"4"+string([]byte{c})+"\"\n")
		verif_assume(c < '0' || c > '9')
		verif_assume(c != ' ')
		verif_assume(c != '.')
		verif_assume(c != 'e')
		verif_assume(c != 'E')
		verif_assume(c != '_')
	case 10: // wrong kind: a list where a string is required
		repl("  Host = \"ho\"\n", "  Host = [\"ho\"]\n")
	case 11: // missing label
		repl("  user \"al\" {", "  user {")
	case 12: // extra label
		repl("  user \"al\" {", "  user \"al\" \"x\" {")
	}
	var cfg HavocConfig
	err := hclsimple.Decode("p.yaotl", []byte(src), nil, &cfg)
	if fault == 0 {
		verif_assert(err == nil, "the unmodified profile loads")
		verif_witness()
		return
	}
	verif_assert(err != nil, "a profile with a single fault is rejected with an error")
	if err != nil {
		diags, ok := err.(hcl.Diagnostics)
		verif_assert(ok, "the error is the list of diagnostics")
		if ok {
			placed := false
			for _, d := range diags {
				if d.Severity == hcl.DiagError {
					if d.Subject != nil {
						if d.Subject.Filename == "p.yaotl" {
							if d.Subject.Start.Line >= 1 {
								if d.Subject.End.Byte <= len(src) {
									placed = true
								}
							}
						}
					}
				}
			}
			verif_assert(placed, "the error names its place in the file")
		}
	}
	verif_witness()
}
