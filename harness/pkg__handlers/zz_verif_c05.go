package handlers

import (
	"Havoc/pkg/agent"
)

func verifBE32(b []byte, v uint32) []byte {
	return append(b, byte(v>>24), byte(v>>16), byte(v>>8), byte(v))
}

// verifAgentRequest frames one command of agent id the way the Demon does:
// [size][magic][agent id][command][request id][rest]
func verifAgentRequest(id uint32, cmd uint32, rid uint32, rest []byte) []byte {
	inner := verifBE32(nil, 0xDEADBEEF)
	inner = verifBE32(inner, id)
	inner = verifBE32(inner, cmd)
	inner = verifBE32(inner, rid)
	inner = append(inner, rest...)
	return append(verifBE32(nil, uint32(len(inner))), inner...)
}

func verifSleepCallback(id, rid, delay, jitter uint32) []byte {
	body := verifBE32(verifBE32(nil, delay), jitter)
	return verifAgentRequest(id, agent.COMMAND_SLEEP, rid, append(verifBE32(nil, uint32(len(body))), body...))
}

// H_c05_handout: the life of one task through the listener: issued to the agent, handed out
// at 0..2 check-ins that ask for jobs, answered by its final callback, and answered again
// (replay of the same request id). The final callback takes effect exactly once; the replay,
// like a callback for a never-issued id, produces no console output and no session change -
// whether or not the task had been handed out before it was answered.
func H_c05_handout() {
	ts, A, _, _ := agent.VerifStateS()
	const id = 0x11223344
	rid := nondet_u32("request-id")
	issued := nondet_bool("issued")
	msg := map[string]string{}
	if issued {
		job, err := A.TaskPrepare(agent.COMMAND_SLEEP, map[string]any{"TaskID": "0000000a", "Arguments": "5;10"}, &msg, "", ts)
		verif_assume(err == nil)
		verif_assume(job != nil)
		job.RequestID = rid
		A.AddJobToQueue(*job)
	}
	checkins := nondet_choice("check-ins", 3)
	for k := 0; k < checkins; k++ {
		_, ok := parseAgentRequest(ts, verifAgentRequest(id, agent.COMMAND_GET_JOB, 0, nil), "10.1.2.3")
		verif_assert(ok, "a check-in of a known agent is answered")
	}
	d1, j1 := nondet_u32("delay-1"), nondet_u32("jitter-1")
	d2, j2 := nondet_u32("delay-2"), nondet_u32("jitter-2")
	before := ts.CountCalls("AgentConsole")
	_, _ = parseAgentRequest(ts, verifSleepCallback(id, rid, d1, j1), "10.1.2.3")
	first := ts.CountCalls("AgentConsole") - before
	if issued {
		verif_assert(first == 1, "the final callback of an outstanding task takes effect once")
		verif_assert(A.Info.SleepDelay == int(d1), "the final callback of an outstanding task is applied")
	} else {
		verif_assert(first == 0, "a callback for a never-issued request id produces no console output")
	}
	delay, jitter := A.Info.SleepDelay, A.Info.SleepJitter
	_, _ = parseAgentRequest(ts, verifSleepCallback(id, rid, d2, j2), "10.1.2.3")
	verif_assert(ts.CountCalls("AgentConsole")-before == first, "once the final callback has been processed the request id is no longer accepted: no console output")
	verif_assert(A.Info.SleepDelay == delay, "a replayed callback changes nothing (delay)")
	verif_assert(A.Info.SleepJitter == jitter, "a replayed callback changes nothing (jitter)")
	verif_no_locks_held("request handler returns with no mutex held")
	verif_witness()
}

func verifLE32At(b []byte, off int) uint32 {
	return uint32(b[off]) | uint32(b[off+1])<<8 | uint32(b[off+2])<<16 | uint32(b[off+3])<<24
}

// H_c04_checkin: a check-in that asks for jobs gets a no-job reply only if nothing is queued:
// one request carrying the packages [GET_JOB], [GET_JOB, callback], [callback, GET_JOB] or
// [callback] alone (the callback has an unknown request id), with one task queued or none.
// Whenever GET_JOB is among the packages and a task is queued the reply hands it out and the
// queue is drained; otherwise the reply is the no-job task and the queue is untouched.
func H_c04_checkin() {
	ts, A, B, C := agent.VerifStateS()
	const id = 0x11223344
	queued := nondet_bool("task-queued")
	// the task is for the agent that checks in, for its pivot child, or for a grandchild
	hops := 0
	msg := map[string]string{}
	if queued {
		hops = nondet_choice("task-for-an-agent-this-many-hops-below", 3)
		T := []*agent.Agent{A, B, C}[hops]
		if hops == 2 {
			C.Pivots.Parent = B
			B.Pivots.Links = append(B.Pivots.Links, C)
		}
		job, err := T.TaskPrepare(agent.COMMAND_SLEEP, map[string]any{"TaskID": "0000000a", "Arguments": "5;10"}, &msg, "", ts)
		verif_assume(err == nil)
		verif_assume(job != nil)
		T.AddJobToQueue(*job)
		verif_assert(len(A.JobQueue) == 1, "a task for an agent behind pivots is queued on the first hop")
	}
	before := len(A.JobQueue)
	cbBody := verifBE32(verifBE32(nil, nondet_u32("delay")), nondet_u32("jitter"))
	cb := append(verifBE32(verifBE32(nil, agent.COMMAND_SLEEP), 0x7777), append(verifBE32(nil, uint32(len(cbBody))), cbBody...)...)
	get := verifBE32(verifBE32(nil, agent.COMMAND_GET_JOB), 0)
	shape := nondet_choice("packages", 4)
	var pkgs []byte
	asked := true
	switch shape {
	case 0:
		pkgs = get
	case 1:
		pkgs = append(append([]byte{}, get...), cb...)
	case 2:
		pkgs = append(append([]byte{}, cb...), get...)
	case 3:
		pkgs = cb
		asked = false
	}
	inner := verifBE32(verifBE32(nil, 0xDEADBEEF), id)
	inner = append(inner, pkgs...)
	body := append(verifBE32(nil, uint32(len(inner))), inner...)
	resp, ok := parseAgentRequest(ts, body, "10.1.2.3")
	verif_assert(ok, "a check-in of a known agent is answered")
	out := resp.Bytes()
	verif_assert(len(out) >= 12, "the reply holds at least one task header")
	if len(out) >= 12 {
		cmd := verifLE32At(out, 0)
		if asked && queued {
			if hops == 0 {
				verif_assert(cmd == agent.COMMAND_SLEEP, "a check-in that asks for jobs while a task is queued is handed that task")
				verif_assert(verifLE32At(out, 4) == 0xa, "the task handed out is the queued one")
			} else {
				verif_assert(cmd == agent.COMMAND_PIVOT, "a check-in of the first hop is handed the wrapped task of an agent behind it")
			}
			verif_assert(len(A.JobQueue) == before-1, "a task handed out leaves the queue")
		} else {
			verif_assert(cmd == agent.COMMAND_NOJOB, "no job is handed out when nothing is queued or nothing was asked")
			verif_assert(len(A.JobQueue) == before, "a no-job reply leaves the queue untouched")
		}
	}
	verif_no_locks_held("request handler returns with no mutex held")
	verif_witness()
}
