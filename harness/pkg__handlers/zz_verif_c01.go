package handlers

import (
	"Havoc/pkg/agent"
	"Havoc/pkg/logr"
)

const verifRequestRawMaxL = 24
const verifC12HdrLen = 2
const verifRequestRestMaxL = 14

type verifSnap struct {
	agents []agent.VerifAgentDigest
	n      int
}

func verifSnapshot(ts *agent.VerifTS) verifSnap {
	var s verifSnap
	s.n = len(ts.Agents.Agents)
	for _, a := range ts.Agents.Agents {
		s.agents = append(s.agents, agent.VerifDigest(a))
	}
	return s
}

func verifAssertUnchanged(ts *agent.VerifTS, before verifSnap, what string) {
	verif_assert(len(ts.Agents.Agents) == before.n, what+": session table size unchanged")
	for i, a := range ts.Agents.Agents {
		if i >= before.n {
			break
		}
		d := agent.VerifDigest(a)
		verif_assert(d == before.agents[i], what+": agent state (queue, tasks, downloads, links, sockets) unchanged")
	}
	verif_assert(logr.VerifFSEffects() == 0, what+": no loot written")
	verif_assert(len(agent.VerifDials) == 0, what+": no outbound connection")
}

func verifRequestState() *agent.VerifTS {
	ts, A, B, _ := agent.VerifStateS()
	switch nondet_choice("service", 2) {
	case 1:
		ts.ServiceMagic = 0x41414141
	}
	agent.VerifQueueShape(ts, A, B, nondet_choice("queue", 5))
	return ts
}

func verifRequestCheck(ts *agent.VerifTS, body []byte) {
	before := verifSnapshot(ts)
	_, ok := parseAgentRequest(ts, body, "10.1.2.3")
	if !ok {
		// a rejected request (decoy 404) leaves session table, queues and loot untouched
		verifAssertUnchanged(ts, before, "rejected request")
		verif_assert(ts.CountCalls("AgentAdd") == 0, "rejected request: no session added")
		verif_assert(ts.CountCalls("AgentConsole") == 0, "rejected request: no console output")
	}
	verif_no_locks_held("request handler returns with no mutex held")
	verif_witness()
}

// H_c01_request_raw: the whole body is L arbitrary bytes.
func H_c01_request_raw() {
	L := nondet_choice("L", verif_bound("request-raw-maxL", verifRequestRawMaxL, 28)+1)
	ts := verifRequestState()
	body := nondet_bytes("body", L)
	verifRequestCheck(ts, body)
}

// H_c01_request_hdr: a grammar-valid 12-byte header (arbitrary size field, Demon magic,
// agent id of A / B / C / unknown) followed by L arbitrary bytes.
func H_c01_request_hdr() {
	who := nondet_choice("who", 4)
	L := nondet_choice("L", verif_bound("request-rest-maxL", verifRequestRestMaxL, 18)+1)
	ts := verifRequestState()
	ids := []uint32{0x11223344, 0x5566aabb, 0x8badf00d, 0x01020304}
	id := ids[who]
	size := nondet_u32("size")
	body := []byte{byte(size >> 24), byte(size >> 16), byte(size >> 8), byte(size), 0xDE, 0xAD, 0xBE, 0xEF,
		byte(id >> 24), byte(id >> 16), byte(id >> 8), byte(id)}
	body = append(body, nondet_bytes("rest", L)...)
	verifRequestCheck(ts, body)
}
