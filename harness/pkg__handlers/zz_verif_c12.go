package handlers

import (
	"bufio"
	"bytes"
	"io"
	"net"
	"net/http"
	"strings"

	"Havoc/pkg/agent"

	"github.com/gin-gonic/gin"
)

// ---- recording gin.ResponseWriter

type verifRW struct {
	hdr    http.Header
	status int
	body   []byte
	wrote  bool
}

func (w *verifRW) Header() http.Header { return w.hdr }
func (w *verifRW) Write(b []byte) (int, error) {
	w.wrote = true
	w.body = append(w.body, b...)
	return len(b), nil
}
func (w *verifRW) WriteHeader(code int)               { w.status = code }
func (w *verifRW) WriteHeaderNow()                    { w.wrote = true }
func (w *verifRW) WriteString(s string) (int, error)  { return w.Write([]byte(s)) }
func (w *verifRW) Status() int                        { return w.status }
func (w *verifRW) Size() int                          { return len(w.body) }
func (w *verifRW) Written() bool                      { return w.wrote }
func (w *verifRW) Flush()                             {}
func (w *verifRW) CloseNotify() <-chan bool           { return nil }
func (w *verifRW) Pusher() http.Pusher                { return nil }
func (w *verifRW) Hijack() (net.Conn, *bufio.ReadWriter, error) { return nil, nil, nil }

var _ gin.ResponseWriter = (*verifRW)(nil)

// ---- the protocol layer behind the admission checks, as a recorder (gosx only)

var (
	verifReached   int
	verifReachedIP string
)

//verif:stub-if c12 Havoc/pkg/handlers.parseAgentRequest
func verifStubParseAgentRequest(ts agent.TeamServer, body []byte, ip string) (bytes.Buffer, bool) {
	verifReached++
	verifReachedIP = ip
	var b bytes.Buffer
	if nondet_bool("agent-request-ok") {
		b.Write([]byte("reply"))
		return b, true
	}
	return b, false
}

func verifSymText(name string, n int) string {
	b := nondet_bytes(name, n)
	for _, c := range b {
		verif_assume(c != 0)
		verif_assume(c != '\n')
		verif_assume(c != '\r')
		verif_assume(c < 0x80) // ASCII (unicode case folding of arbitrary runes is outside the bound)
	}
	return string(b)
}

func verifTrimBlanks(s string) string {
	for len(s) > 0 {
		if s[0] != ' ' {
			break
		}
		s = s[1:]
	}
	for len(s) > 0 {
		if s[len(s)-1] != ' ' {
			break
		}
		s = s[:len(s)-1]
	}
	return s
}

// H_c12_admission: a request reaches the agent protocol only if URI, User-Agent and every
// configured (non-ignored) header match the listener profile; every other request gets the
// decoy 404 and no configured response header; admitted replies carry the configured
// response headers with their full values; the recorded sender is the peer's host (or the
// forwarded-for header behind a redirector).
func H_c12_admission() {
	verifReached = 0
	verifReachedIP = ""
	ts, _, _, _ := agent.VerifStateS()
	h := &HTTP{Teamserver: ts}

	// One dimension at a time is explored in full symbolic variety (focus); each of the
	// others is configured and takes a fixed matching or mismatching value, so the product
	// of the admission checks is still exercised (a dropped or inverted check shows).
	focus := nondet_choice("focus", 4) // 0 URI, 1 User-Agent, 2 request headers, 3 response headers + sender
	hdr := http.Header{}

	// ---- URIs
	uriMode, cfgURI, reqURI := 2, "/a", "/a"
	if focus == 0 {
		uriMode = nondet_choice("cfg-uris", 5)
		cfgURI = "/" + verifSymText("cfg-uri", verif_bound("uri-text-len", 1, 2))
		reqURI = "/" + verifSymText("req-uri", verif_bound("uri-text-len", 1, 2))
	} else if nondet_bool("uri-mismatch") {
		reqURI = "/b"
	}
	switch uriMode {
	case 1:
		h.Config.Uris = []string{""}
	case 2:
		h.Config.Uris = []string{cfgURI}
	case 3:
		h.Config.Uris = []string{"/zz", cfgURI}
	case 4: // an empty entry next to a real one configures the real one (only [""] means "any")
		h.Config.Uris = []string{"", cfgURI}
	}

	// ---- User-Agent
	reqUA := "UAx"
	h.Config.UserAgent = "UAx"
	if focus == 1 {
		h.Config.UserAgent = ""
		if nondet_bool("cfg-ua-set") {
			h.Config.UserAgent = "UA" + verifSymText("cfg-ua", verif_bound("ua-text-len", 1, 2))
		}
		reqUA = ""
		if nondet_bool("req-ua-present") {
			reqUA = "UA" + verifSymText("req-ua", verif_bound("ua-text-len", 1, 2))
		}
	} else if nondet_bool("ua-mismatch") {
		reqUA = "UAy"
	}
	if reqUA != "" {
		hdr.Set("User-Agent", reqUA)
	}

	// ---- request headers
	hdrMode, cfgHdrVal, reqHdrVal, reqHdrPresent := 2, "v1", "V1", true
	if focus == 2 {
		hdrMode = nondet_choice("cfg-headers", 4)
		cfgHdrVal = verifSymText("cfg-hdr-value", verifC12HdrLen)
		reqHdrPresent = nondet_bool("req-hdr-present")
		if reqHdrPresent {
			reqHdrVal = verifSymText("req-hdr-value", verifC12HdrLen)
		}
	} else if nondet_bool("hdr-mismatch") {
		reqHdrVal = "v2"
	}
	switch hdrMode {
	case 1:
		h.Config.Headers = []string{"X-Test: " + cfgHdrVal}
	case 2:
		h.Config.Headers = []string{"Connection: keep-alive", "X-Test: " + cfgHdrVal}
	case 3:
		h.Config.Headers = []string{"accept-encoding: gzip", "CONNECTION: close"}
	}
	if reqHdrPresent {
		hdr.Set("X-Test", reqHdrVal)
	}

	// ---- response headers, redirector flag, peer
	respMode, respVal := 1, "ok"
	peer := "1.2.3.4:5000"
	if focus == 3 {
		respVal = verifSymText("cfg-resp-value", 3)
		respMode = nondet_choice("cfg-resp", 3)
		h.Config.BehindRedir = nondet_bool("behind-redirector")
		peer = []string{"1.2.3.4:5000", "[2001:db8::1]:5000"}[nondet_choice("peer", 2)]
	}
	switch respMode {
	case 1:
		h.Config.Response.Headers = []string{"X-Resp: " + respVal}
	case 2:
		h.Config.Response.Headers = []string{"Server: nginx", "X-Resp:" + respVal}
	}

	hdr.Set("X-Forwarded-For", "9.9.9.9")
	// a well-formed Demon header of an unknown agent, not a registration: the real protocol
	// layer (native replay) looks the agent up and rejects it
	body := []byte{0, 0, 0, 0x10, 0xDE, 0xAD, 0xBE, 0xEF, 0x01, 0x02, 0x03, 0x04, 0, 0, 0, 1, 0, 0, 0, 0}
	req := &http.Request{Method: "POST", RequestURI: reqURI, RemoteAddr: peer, Header: hdr, Body: io.NopCloser(bytes.NewReader(body))}
	w := &verifRW{hdr: http.Header{}}
	ctx := &gin.Context{Request: req, Writer: w}

	h.request(ctx)

	reached := verifReached > 0
	if !verif_symbolic() {
		reached = ts.ExistCalls > 0
	}
	// ---- expected admission
	uriOK := true
	if uriMode >= 2 {
		uriOK = reqURI == cfgURI
		if uriMode == 3 {
			if reqURI == "/zz" {
				uriOK = true
			}
		}
	}
	uaOK := true
	if h.Config.UserAgent != "" {
		uaOK = reqUA == h.Config.UserAgent
	}
	hdrOK := true
	if hdrMode == 1 || hdrMode == 2 {
		hdrOK = false
		if reqHdrPresent {
			hdrOK = strings.ToLower(reqHdrVal) == strings.ToLower(cfgHdrVal)
		}
	}
	admit := false
	if uriOK {
		if uaOK {
			if hdrOK {
				admit = true
			}
		}
	}
	verif_assert(reached == admit, "a request reaches the agent protocol exactly when URI, User-Agent and every configured header match the profile")
	if !reached {
		verif_assert(w.status == http.StatusNotFound, "a rejected request gets the decoy 404")
		verif_assert(w.hdr.Get("X-Resp") == "", "a rejected request gets none of the configured response headers")
	} else {
		if respMode >= 1 {
			verif_assert(verifTrimBlanks(w.hdr.Get("X-Resp")) == verifTrimBlanks(respVal), "an admitted reply carries each configured response header with its full value")
		}
		if respMode == 2 {
			verif_assert(verifTrimBlanks(w.hdr.Get("Server")) == "nginx", "an admitted reply carries every configured response header")
		}
		if verif_symbolic() {
			want := "9.9.9.9"
			if !h.Config.BehindRedir {
				want, _, _ = net.SplitHostPort(peer)
			}
			verif_assert(verifReachedIP == want, "the recorded sender is the peer's address, or the forwarded-for header only behind a redirector")
		}
	}
	verif_witness()
}
