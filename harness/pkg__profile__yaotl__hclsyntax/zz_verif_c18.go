package hclsyntax

import (
	"math/big"

	hcl "Havoc/pkg/profile/yaotl"

	"github.com/zclconf/go-cty/cty"
)

// ---------------------------------------------------------------------------------------
// C18: reference semantics of binary-operator expressions over three operands, written down
// from the language rules (HCL native syntax specification, "Operations": precedence levels
// from lowest to highest  ||  &&  == !=  < > <= >=  + -  * / % , all left associative;
// arithmetic and ordering need numbers, logic needs booleans, equality takes anything).

type verifVal struct {
	kind int // 0 error, 1 number (num/den), 2 bool
	num  int64
	den  int64
	b    bool
}

func verifNum(n int64) verifVal { return verifVal{kind: 1, num: n, den: 1} }

func verifGcd(a, b int64) int64 {
	if a < 0 {
		a = -a
	}
	if b < 0 {
		b = -b
	}
	for b != 0 {
		a, b = b, a%b
	}
	if a == 0 {
		return 1
	}
	return a
}

func verifNorm(n, d int64) verifVal {
	if d < 0 {
		n, d = -n, -d
	}
	g := verifGcd(n, d)
	return verifVal{kind: 1, num: n / g, den: d / g}
}

// operator codes: 0 ||, 1 &&, 2 ==, 3 !=, 4 <, 5 >, 6 <=, 7 >=, 8 +, 9 -, 10 *, 11 /, 12 %
var verifOpText = []string{"||", "&&", "==", "!=", "<", ">", "<=", ">=", "+", "-", "*", "/", "%"}
var verifOpLevel = []int{1, 2, 3, 3, 4, 4, 4, 4, 5, 5, 6, 6, 6}

func verifApply(op int, x, y verifVal) verifVal {
	if x.kind == 0 || y.kind == 0 {
		return verifVal{}
	}
	switch {
	case op <= 1:
		if x.kind != 2 || y.kind != 2 {
			return verifVal{}
		}
		if op == 0 {
			return verifVal{kind: 2, b: x.b || y.b}
		}
		return verifVal{kind: 2, b: x.b && y.b}
	case op <= 3:
		eq := false
		if x.kind == y.kind {
			if x.kind == 1 {
				eq = x.num == y.num && x.den == y.den
			} else {
				eq = x.b == y.b
			}
		}
		if op == 3 {
			eq = !eq
		}
		return verifVal{kind: 2, b: eq}
	}
	if x.kind != 1 || y.kind != 1 {
		return verifVal{}
	}
	l, r := x.num*y.den, y.num*x.den // compare / combine over the common denominator
	switch op {
	case 4:
		return verifVal{kind: 2, b: l < r}
	case 5:
		return verifVal{kind: 2, b: l > r}
	case 6:
		return verifVal{kind: 2, b: l <= r}
	case 7:
		return verifVal{kind: 2, b: l >= r}
	case 8:
		return verifNorm(l+r, x.den*y.den)
	case 9:
		return verifNorm(l-r, x.den*y.den)
	case 10:
		return verifNorm(x.num*y.num, x.den*y.den)
	case 11:
		if y.num == 0 {
			return verifVal{}
		}
		return verifNorm(x.num*y.den, x.den*y.num)
	case 12:
		if y.num == 0 {
			return verifVal{}
		}
		if x.den != 1 || y.den != 1 {
			return verifVal{kind: 3} // remainder of fractions: not specified by this reference
		}
		return verifNum(x.num % y.num)
	}
	return verifVal{}
}

// verifOpOf recognises an operator written in a two-byte slot ("+ ", " +", "==", ...).
func verifOpOf(b0, b1 byte) int {
	blank0 := b0 == ' ' || b0 == '\t'
	blank1 := b1 == ' ' || b1 == '\t'
	for op, t := range verifOpText {
		if len(t) == 2 {
			if b0 == t[0] {
				if b1 == t[1] {
					return op
				}
			}
		} else {
			if blank1 {
				if b0 == t[0] {
					return op
				}
			}
			if blank0 {
				if b1 == t[0] {
					return op
				}
			}
		}
	}
	return -1
}

func verifCheckValue(v cty.Value, diags hcl.Diagnostics, want verifVal, label string) {
	if want.kind == 3 {
		return
	}
	if want.kind == 0 {
		verif_assert(diags.HasErrors(), label+": an ill-typed or undefined operation gives an error diagnostic, not a value")
		return
	}
	verif_assert(!diags.HasErrors(), label+": a well-typed expression evaluates without error")
	if diags.HasErrors() {
		return
	}
	if want.kind == 2 {
		verif_assert(v.Type() == cty.Bool, label+": the result is a boolean")
		if v.Type() == cty.Bool {
			verif_assert(v.True() == want.b, label+": the boolean the language rules prescribe")
		}
		return
	}
	verif_assert(v.Type() == cty.Number, label+": the result is a number")
	if v.Type() == cty.Number {
		if want.den&(want.den-1) != 0 {
			return // a quotient without a finite binary expansion is rounded (512 bits): not compared
		}
		// v * den == num, exactly
		bf := new(big.Float).SetPrec(512).Mul(v.AsBigFloat(), new(big.Float).SetInt64(want.den))
		verif_assert(bf.Cmp(new(big.Float).SetInt64(want.num)) == 0, label+": the number the language rules prescribe")
	}
}

// H_c18_binary: "x S1 y S2 z" where each operator slot is two arbitrary bytes and the
// operands are variables bound to numbers and booleans: whenever both slots spell an
// operator, the real parser and evaluator give the value prescribed by precedence, left
// associativity and the typing rules - and the same value with redundant parentheses around
// the sub-expression that binds first.
func H_c18_binary() {
	env := nondet_choice("operands", 4)
	var xs [3]verifVal
	vars := map[string]cty.Value{}
	names := []string{"x", "y", "z"}
	sets := [][3]int64{{12, 4, 2}, {7, 7, 3}, {0, 5, 0}, {1, 0, 1}}
	for i := 0; i < 3; i++ {
		if env == 3 {
			xs[i] = verifVal{kind: 2, b: sets[3][i] == 1}
			vars[names[i]] = cty.BoolVal(sets[3][i] == 1)
		} else {
			xs[i] = verifNum(sets[env][i])
			vars[names[i]] = cty.NumberIntVal(sets[env][i])
		}
	}
	if env == 2 {
		// mixed: a boolean in the middle
		xs[1] = verifVal{kind: 2, b: true}
		vars["y"] = cty.True
	}
	ctx := &hcl.EvalContext{Variables: vars}
	s1 := nondet_bytes("op1", 2)
	s2 := nondet_bytes("op2", 2)
	o1 := verifOpOf(s1[0], s1[1])
	o2 := verifOpOf(s2[0], s2[1])
	verif_assume(o1 >= 0)
	verif_assume(o2 >= 0)
	src := []byte{'x', ' ', s1[0], s1[1], ' ', 'y', ' ', s2[0], s2[1], ' ', 'z'}
	start := hcl.Pos{Byte: 0, Line: 1, Column: 1}
	expr, diags := ParseExpression(src, "e", start)
	verif_assert(!diags.HasErrors(), "two operators between three operands parse")
	if diags.HasErrors() {
		return
	}
	var want verifVal
	leftFirst := verifOpLevel[o1] >= verifOpLevel[o2]
	if leftFirst {
		want = verifApply(o2, verifApply(o1, xs[0], xs[1]), xs[2])
	} else {
		want = verifApply(o1, xs[0], verifApply(o2, xs[1], xs[2]))
	}
	v, vd := expr.Value(ctx)
	verifCheckValue(v, vd, want, "as written")
	// redundant parentheses around what binds first
	var psrc []byte
	if leftFirst {
		psrc = []byte{'(', 'x', ' ', s1[0], s1[1], ' ', 'y', ')', ' ', s2[0], s2[1], ' ', 'z'}
	} else {
		psrc = []byte{'x', ' ', s1[0], s1[1], ' ', '(', 'y', ' ', s2[0], s2[1], ' ', 'z', ')'}
	}
	pexpr, pdiags := ParseExpression(psrc, "e", start)
	verif_assert(!pdiags.HasErrors(), "the parenthesised spelling parses")
	if !pdiags.HasErrors() {
		pv, pvd := pexpr.Value(ctx)
		verifCheckValue(pv, pvd, want, "with redundant parentheses")
	}
	verif_witness()
}

func verifEvalNumber(src []byte, ctx *hcl.EvalContext) (int64, bool, bool) {
	expr, diags := ParseExpression(src, "e", hcl.Pos{Byte: 0, Line: 1, Column: 1})
	if diags.HasErrors() {
		return 0, false, false
	}
	v, vd := expr.Value(ctx)
	if vd.HasErrors() {
		return 0, true, false
	}
	if v.Type() != cty.Number {
		return 0, true, false
	}
	if !v.IsKnown() {
		return 0, true, false
	}
	bf := v.AsBigFloat()
	n, acc := bf.Int64()
	if acc != big.Exact {
		return 0, true, false
	}
	return n, true, true
}

// H_c18_access: indexing, attribute access, conditionals and for-expressions with one
// arbitrary digit D (a symbolic source byte) selecting the element, key, condition or
// filter: in range the prescribed element comes back, out of range / unknown key gives an
// error diagnostic and never a value.
func H_c18_access() {
	form := nondet_choice("form", 8)
	d := nondet_u8("digit")
	verif_assume(d >= '0')
	verif_assume(d <= '9')
	k := int64(d - '0')
	switch form {
	case 0: // tuple index
		src := append([]byte("[10, 20, 30]["), d, ']')
		n, parsed, ok := verifEvalNumber(src, nil)
		verif_assert(parsed, "an index expression parses")
		if k <= 2 {
			verif_assert(ok, "an index in range yields a value")
			verif_assert(n == 10*(k+1), "indexing yields the element at that position")
		} else {
			verif_assert(!ok, "an index out of range gives an error, not a value")
		}
	case 1: // object attribute by name a0..a9 (only a1 and a2 exist)
		src := append([]byte("{a1 = 5, a2 = 6}.a"), d)
		n, parsed, ok := verifEvalNumber(src, nil)
		verif_assert(parsed, "an attribute access parses")
		if k == 1 || k == 2 {
			verif_assert(ok, "an existing attribute yields a value")
			verif_assert(n == 4+k, "attribute access yields that attribute's value")
		} else {
			verif_assert(!ok, "a missing attribute gives an error, not a value")
		}
	case 2: // object index by string key
		src := append(append([]byte("{a1 = 5, a2 = 6}[\"a"), d), '"', ']')
		n, parsed, ok := verifEvalNumber(src, nil)
		verif_assert(parsed, "an index by key parses")
		if k == 1 || k == 2 {
			verif_assert(ok, "an existing key yields a value")
			verif_assert(n == 4+k, "indexing by key yields that key's value")
		} else {
			verif_assert(!ok, "a missing key gives an error, not a value")
		}
	case 3: // conditional
		src := append(append([]byte{}, d), []byte(" == 1 ? 10 : 20")...)
		n, parsed, ok := verifEvalNumber(src, nil)
		verif_assert(parsed, "a conditional parses")
		verif_assert(ok, "a conditional over a boolean condition yields a value")
		if k == 1 {
			verif_assert(n == 10, "a true condition selects the first result")
		} else {
			verif_assert(n == 20, "a false condition selects the second result")
		}
	case 4: // for expression with a filter, then index 0 and length via splat-free arithmetic
		src := append(append([]byte("[for v in [1, 2, 3]: v * 2 if v != "), d), []byte("][0]")...)
		n, parsed, ok := verifEvalNumber(src, nil)
		verif_assert(parsed, "a for expression parses")
		verif_assert(ok, "a filtered for expression yields a tuple whose first element exists")
		if k == 1 {
			verif_assert(n == 4, "the filter removes exactly the matching element")
		} else {
			verif_assert(n == 2, "elements not matching the filter stay in order")
		}
	case 7: // the filter guards the result expression: excluded elements are not evaluated
		src := append(append([]byte("[for i in [0, 1, "), d), []byte("]: [10, 20][i] if i < 2][1]")...)
		n, parsed, ok := verifEvalNumber(src, nil)
		verif_assert(parsed, "a for expression parses")
		verif_assert(ok, "an element the filter excludes is not evaluated by the result expression")
		verif_assert(n == 20, "elements passing the filter stay in order")
	case 6: // a splat over null is the empty tuple (known, length 0), whatever follows it
		src := append(append([]byte("(null[*])[*].a"), ' ', '!', '=', ' '), d)
		expr, diags := ParseExpression(src, "e", hcl.Pos{Byte: 0, Line: 1, Column: 1})
		verif_assert(!diags.HasErrors(), "a splat over null parses")
		if !diags.HasErrors() {
			v, vd := expr.Value(nil)
			verif_assert(!vd.HasErrors(), "comparing a splat over null with a number evaluates")
			verif_assert(v.IsKnown(), "a splat over null is a known value (the empty tuple)")
			if v.IsKnown() {
				verif_assert(v.Type() == cty.Bool, "an inequality is a boolean")
				if v.Type() == cty.Bool {
					verif_assert(v.True(), "the empty tuple differs from every number")
				}
			}
		}
	case 5: // splat then index
		// (a full splat takes the index operators that follow it into the per-element traversal,
		// so the splat is parenthesised before indexing its result)
		src := append(append([]byte("([{a = 7}, {a = 8}, {a = 9}][*].a)["), d), ']')
		n, parsed, ok := verifEvalNumber(src, nil)
		verif_assert(parsed, "a splat expression parses")
		if k <= 2 {
			verif_assert(ok, "a splat yields one result per element")
			verif_assert(n == 7+k, "a splat applies the traversal to every element in order")
		} else {
			verif_assert(!ok, "an index past the splat's result gives an error")
		}
	}
	verif_witness()
}

func verifPlainChar(name string) byte {
	c := nondet_u8(name)
	// a character that stands for itself inside a quoted template and inside a heredoc
	verif_assume(c >= 0x21)
	verif_assume(c < 0x7f)
	verif_assume(c != '"')
	verif_assume(c != '\\')
	verif_assume(c != '$')
	verif_assume(c != '%')
	return c
}

// H_c18_template: string templates over arbitrary literal characters P, Q and an arbitrary
// two-character string variable s: interpolation, strip markers, if/else and for directives,
// plain and indented heredocs produce exactly the text the template rules prescribe.
func H_c18_template() {
	form := nondet_choice("form", 11)
	p, q := verifPlainChar("P"), verifPlainChar("Q")
	sb := nondet_bytes("s", 2)
	for _, c := range sb {
		verif_assume(c < 0x80)
	}
	s := string(sb)
	cond := nondet_bool("cond")
	ctx := &hcl.EvalContext{Variables: map[string]cty.Value{
		"s": cty.StringVal(s),
		"c": cty.BoolVal(cond),
		"l": cty.TupleVal([]cty.Value{cty.StringVal(s), cty.StringVal("z")}),
	}}
	var src []byte
	var want string
	switch form {
	case 0:
		src = append(append([]byte{'"', p}, "${s}"...), q, '"')
		want = string([]byte{p}) + s + string([]byte{q})
	case 1: // strip markers remove the white space next to the sequence
		src = append(append([]byte{'"', p, ' ', '\t'}, "${~ s ~}"...), ' ', ' ', q, '"')
		want = string([]byte{p}) + s + string([]byte{q})
	case 2:
		src = append(append(append(append([]byte("\"%{if c}"), p), "%{else}"...), q), "%{endif}\""...)
		if cond {
			want = string([]byte{p})
		} else {
			want = string([]byte{q})
		}
	case 3: // if without else
		src = append(append(append([]byte("\"x%{if c}"), p), "%{endif}"...), q, '"')
		if cond {
			want = "x" + string([]byte{p, q})
		} else {
			want = "x" + string([]byte{q})
		}
	case 4:
		src = append(append(append([]byte("\"%{for v in l}"), p), "${v}%{endfor}"...), q, '"')
		want = string([]byte{p}) + s + string([]byte{p}) + "z" + string([]byte{q})
	case 7: // a strip marker trims only the literal right next to it, not one after a further sequence
		src = append(append([]byte{'"', p}, "${s ~}${s} "...), q, '"')
		want = string([]byte{p}) + s + s + " " + string([]byte{q})
	case 8: // the same with a directive in front
		src = append(append(append([]byte("\"%{ if c ~}${s} "), p), " %{ endif }"...), q, '"')
		if cond {
			want = s + " " + string([]byte{p}) + " " + string([]byte{q})
		} else {
			want = string([]byte{q})
		}
	case 9: // left strip marker: only the literal right before it
		src = append(append([]byte{'"', p, ' '}, "${s} ${~ s}"...), q, '"')
		want = string([]byte{p}) + " " + s + s + string([]byte{q})
	case 10: // indented heredoc with a line that starts in column 0 with an interpolation: nothing is stripped
		src = append(append(append(append([]byte("<<-EOTX\n    "), p), "\n${s}\n    "...), q, '\n'), "EOTX\n"...)
		want = "    " + string([]byte{p}) + "\n" + s + "\n    " + string([]byte{q}) + "\n"
	case 5: // heredoc: every line up to the marker, newlines kept (the marker is longer than any line)
		src = append(append(append(append([]byte("<<EOTX\n"), p), "${s}\n"...), q, '\n'), "EOTX\n"...)
		want = string([]byte{p}) + s + "\n" + string([]byte{q}) + "\n"
	case 6: // indented heredoc: the smallest indentation is removed from every line
		src = append(append(append(append([]byte("<<-EOTX\n  "), p), "\n    "...), q, '\n'), "  EOTX\n"...)
		want = string([]byte{p}) + "\n  " + string([]byte{q}) + "\n"
	}
	expr, diags := ParseExpression(src, "e", hcl.Pos{Byte: 0, Line: 1, Column: 1})
	verif_assert(!diags.HasErrors(), "a well-formed template parses")
	if diags.HasErrors() {
		return
	}
	v, vd := expr.Value(ctx)
	verif_assert(!vd.HasErrors(), "a well-typed template evaluates without error")
	if vd.HasErrors() {
		return
	}
	verif_assert(v.Type() == cty.String, "a template yields a string")
	if v.Type() == cty.String {
		got := v.AsString()
		verif_assert(len(got) == len(want), "the template yields text of the prescribed length")
		if len(got) == len(want) {
			for k := 0; k < len(want); k++ {
				verif_assert(got[k] == want[k], "the template yields exactly the prescribed text")
			}
		}
	}
	verif_witness()
}
