package hclsyntax

import (
	hcl "Havoc/pkg/profile/yaotl"

	"github.com/zclconf/go-cty/cty"
)

// VerifRuneSeg selects the deterministic model of grapheme segmentation (one cluster per
// UTF-8 encoded rune, CR LF together, an ill-formed byte alone) instead of the
// nondeterministic contract model; harnesses that compare two runs over the same text
// (formatting twice) need the segmentation to be a function of the text.
var VerifRuneSeg = false

// textseg.ScanGraphemeClusters by its contract (see the json harness for the reasoning):
// some non-empty prefix of the data; CR LF is one cluster; ASCII is one byte per cluster.
//
//verif:stub github.com/apparentlymart/go-textseg/v13/textseg.ScanGraphemeClusters
func verifStubGrapheme(data []byte, atEOF bool) (int, []byte, error) {
	if len(data) == 0 {
		return 0, nil, nil
	}
	n := 1
	ascii2 := true
	if data[0] >= 0x80 {
		ascii2 = false
	}
	if len(data) > 1 {
		if data[1] >= 0x80 {
			ascii2 = false
		}
		if data[0] == '\r' {
			if data[1] == '\n' {
				return 2, data[:2], nil
			}
		}
	}
	if VerifRuneSeg {
		c := data[0]
		want := 1
		if c >= 0xc2 {
			want = 2
		}
		if c >= 0xe0 {
			want = 3
		}
		if c >= 0xf0 {
			want = 4
		}
		if c >= 0xf5 {
			want = 1
		}
		if want > len(data) {
			want = 1
		}
		for k := 1; k < want; k++ {
			if data[k] < 0x80 {
				want = 1
			} else if data[k] >= 0xc0 {
				want = 1
			}
		}
		return want, data[:want], nil
	}
	if !ascii2 {
		n = 1 + nondet_choice("grapheme-len", len(data))
	}
	return n, data[:n], nil
}

// "Did you mean ...?" hints only decorate diagnostic text; computing edit distances over a
// symbolic name forks on every character pair (formatting blow-up), so the hint is left out.
//
//verif:stub-if nohint Havoc/pkg/profile/yaotl/hclsyntax.nameSuggestion
func verifStubNameSuggestion(given string, suggestions []string) string { return "" }

const verifStrLitAnyMaxL = 4

// H_c17_strlit_any: the string-literal sub-lexer accepts any bytes (quoted and unquoted
// mode) without panicking and loses nothing: its slices concatenate to the input.
func H_c17_strlit_any() {
	L := nondet_choice("L", verif_bound("strlit-maxL", verifStrLitAnyMaxL, 5)+1)
	quoted := nondet_bool("quoted")
	src := nondet_bytes("src", L)
	parts := scanStringLit(src, quoted)
	// totality holds for every byte string; losslessness is asserted for ASCII input (for
	// ill-formed UTF-8 after a backslash the helper repeats bytes; the main lexer flags such
	// input separately, and the statement's losslessness is about its tokens)
	for _, c := range src {
		if c >= 0x80 {
			verif_witness()
			return
		}
	}
	pos := 0
	for _, p := range parts {
		verif_assert(pos+len(p) <= L, "slices stay inside the input")
		if pos+len(p) > L {
			return
		}
		for k := range p {
			verif_assert(p[k] == src[pos+k], "slices carry the input bytes in order")
		}
		pos += len(p)
	}
	verif_assert(pos == L, "the slices cover the whole input (nothing is lost)")
	verif_witness()
}

const hexdU = "0123456789ABCDEF"
const hexdL = "0123456789abcdef"

// H_c14_strlit: every value of 0..2 arbitrary bytes, written with any of the spellings the
// dialect accepts for each byte (raw where legal, \n \r \t \" \\, \xHH in either hex case,
// $${ and %%{ for template markers), decodes to exactly that value with no error, and every
// diagnostic's range lies inside the token.
func H_c14_strlit() {
	n := nondet_choice("value-len", verif_bound("strlit-value-len", 2, 3)+1)
	var value, spelled []byte
	afterHex := false
	for i := 0; i < n; i++ {
		c := nondet_u8("byte")
		value = append(value, c)
		switch nondet_choice("spelling", 4) {
		case 0: // raw (only where a quoted literal may contain the byte as is)
			verif_assume(c != '"')
			verif_assume(c != '\\')
			verif_assume(c != '\n')
			verif_assume(c != '\r')
			verif_assume(c != '$')
			verif_assume(c != '%')
			verif_assume(c < 0x80) // raw non-ASCII must be valid UTF-8 sequences: outside the bound
			if afterHex {
				// \x takes a greedy run of hex digits in this dialect: a raw hex digit cannot
				// directly follow a \xHH escape (the writer must escape it too)
				isHex := (c >= '0' && c <= '9') || (c >= 'a' && c <= 'f') || (c >= 'A' && c <= 'F')
				verif_assume(!isHex)
			}
			spelled = append(spelled, c)
			afterHex = false
		case 1: // named escape
			switch c {
			case '\n':
				spelled = append(spelled, '\\', 'n')
			case '\r':
				spelled = append(spelled, '\\', 'r')
			case '\t':
				spelled = append(spelled, '\\', 't')
			case '"':
				spelled = append(spelled, '\\', '"')
			case '\\':
				spelled = append(spelled, '\\', '\\')
			default:
				verif_assume(false)
			}
			afterHex = false
		case 2: // \xHH upper case
			spelled = append(spelled, '\\', 'x', hexdU[c>>4], hexdU[c&15])
			afterHex = true
		case 3: // \xhh lower case
			spelled = append(spelled, '\\', 'x', hexdL[c>>4], hexdL[c&15])
			afterHex = true
		}
	}
	tok := Token{Type: TokenQuotedLit, Bytes: spelled, Range: hcl.Range{Filename: "f", Start: hcl.Pos{Line: 1, Column: 1, Byte: 0}, End: hcl.Pos{Line: 1, Column: 1, Byte: len(spelled)}}}
	got, diags := ParseStringLiteralToken(tok)
	for _, d := range diags {
		if d.Subject != nil {
			verif_assert(d.Subject.Start.Byte >= 0, "diagnostic range starts inside the token")
			verif_assert(d.Subject.End.Byte <= len(spelled), "diagnostic range ends inside the token")
			verif_assert(d.Subject.Start.Byte <= d.Subject.End.Byte, "diagnostic range is well-formed")
		}
	}
	verif_assert(len(diags) == 0, "an accepted spelling produces no diagnostic")
	verif_assert(len(got) == len(value), "the decoded string has the value's length")
	if len(got) == len(value) {
		for k := range value {
			verif_assert(got[k] == value[k], "the decoded string equals the value")
		}
	}
	verif_witness()
}

const verifLexMaxL = 2

// H_c17_lex: the native-syntax scanner (the Ragel machine of scan_tokens.go, all three
// entry modes) on every byte string of length 0..L: it terminates without panicking, its
// tokens come in source order without overlap, each carries exactly the input bytes of its
// range, the bytes between tokens are blanks only (or the leading UTF-8 BOM), the last
// token is the end-of-file token at the end of the input, and line/column never go below 1.
func H_c17_lex() {
	// the first choice partitions the input space for sharding: mode x top two bits of byte 0
	slice := nondet_choice("mode-x-quadrant", 12)
	mode := scanMode(slice % 3)
	L := nondet_choice("L", verif_bound("lex-maxL", verifLexMaxL, 3)+1)
	src := nondet_bytes("src", L)
	if L == 0 {
		verif_assume(slice/3 == 0)
	} else {
		verif_assume(int(src[0]>>6) == slice/3)
	}
	verifLexCheck(src, mode)
	verif_witness()
}

// verifLexCheck scans src and checks what C17 states about the token stream.
func verifLexCheck(src []byte, mode scanMode) {
	L := len(src)
	toks := scanTokens(src, "f", hcl.Pos{Byte: 0, Line: 1, Column: 1}, mode)
	verif_assert(len(toks) >= 1, "at least the end-of-file token")
	pos := 0
	for i, t := range toks {
		s, e := t.Range.Start.Byte, t.Range.End.Byte
		verif_assert(s >= pos, "tokens come in source order without overlap")
		verif_assert(e >= s, "token range is not inverted")
		verif_assert(e <= L, "token range lies inside the input")
		if s < pos || e < s || e > L {
			return
		}
		for k := pos; k < s; k++ {
			blank := src[k] == ' ' || src[k] == '\t'
			if k < 3 {
				if pos == 0 {
					if s >= 3 {
						if src[0] == 0xef {
							if src[1] == 0xbb {
								if src[2] == 0xbf {
									blank = true // byte-order mark
								}
							}
						}
					}
				}
			}
			verif_assert(blank, "only blanks are skipped between tokens")
		}
		verif_assert(len(t.Bytes) == e-s, "token carries as many bytes as its range")
		if len(t.Bytes) != e-s {
			return
		}
		for k := range t.Bytes {
			verif_assert(t.Bytes[k] == src[s+k], "token carries exactly the input bytes of its range")
		}
		verif_assert(t.Range.Start.Line >= 1, "line numbers start at 1")
		verif_assert(t.Range.Start.Column >= 1, "column numbers start at 1")
		verif_assert(t.Range.End.Line >= t.Range.Start.Line, "a token does not end before it starts")
		if i == len(toks)-1 {
			verif_assert(t.Type == TokenEOF, "the last token is the end-of-file token")
			verif_assert(e == L, "the end-of-file token sits at the end of the input")
			verif_assert(s == e, "the end-of-file token is empty")
		} else {
			verif_assert(t.Type != TokenEOF, "end-of-file is reported once, last")
		}
		pos = e
	}
}


const verifParseMaxL = 2

// verifRangeWalker checks, for every node of a syntax tree, that its range lies inside the
// input and inside the range of its parent.
type verifRangeWalker struct {
	L      int
	Errors bool // the parse reported error diagnostics (the tree comes from error recovery)
	stack  []hcl.Range
	kinds  []string
}

// verifNodeKind names the node type (labels of the nesting obligations carry the parent and
// child kinds, so that a known finding names one specific parent/child pair).
func verifNodeKind(n Node) string {
	switch n.(type) {
	case *Body:
		return "Body"
	case *Attribute:
		return "Attribute"
	case *Block:
		return "Block"
	case *LiteralValueExpr:
		return "LiteralValueExpr"
	case *ScopeTraversalExpr:
		return "ScopeTraversalExpr"
	case *RelativeTraversalExpr:
		return "RelativeTraversalExpr"
	case *FunctionCallExpr:
		return "FunctionCallExpr"
	case *ConditionalExpr:
		return "ConditionalExpr"
	case *IndexExpr:
		return "IndexExpr"
	case *TupleConsExpr:
		return "TupleConsExpr"
	case *ObjectConsExpr:
		return "ObjectConsExpr"
	case *ObjectConsKeyExpr:
		return "ObjectConsKeyExpr"
	case *ForExpr:
		return "ForExpr"
	case *SplatExpr:
		return "SplatExpr"
	case *AnonSymbolExpr:
		return "AnonSymbolExpr"
	case *BinaryOpExpr:
		return "BinaryOpExpr"
	case *UnaryOpExpr:
		return "UnaryOpExpr"
	case *TemplateExpr:
		return "TemplateExpr"
	case *TemplateJoinExpr:
		return "TemplateJoinExpr"
	case *TemplateWrapExpr:
		return "TemplateWrapExpr"
	case *ParenthesesExpr:
		return "ParenthesesExpr"
	}
	return "Node"
}

func (w *verifRangeWalker) Enter(n Node) hcl.Diagnostics {
	// Attributes and Blocks are grouping nodes without a source range of their own
	// (documented in structure.go: "produce an invalid range"); their members are checked
	// against the enclosing body.
	switch n.(type) {
	case Attributes, Blocks:
		var up hcl.Range
		kind := ""
		if len(w.stack) > 0 {
			up = w.stack[len(w.stack)-1]
			kind = w.kinds[len(w.kinds)-1]
		}
		w.stack = append(w.stack, up)
		w.kinds = append(w.kinds, kind)
		return nil
	}
	r := n.Range()
	kind := verifNodeKind(n)
	verif_assert(r.Start.Byte >= 0, "node range starts inside the input")
	verif_assert(r.End.Byte <= w.L, "node range ends inside the input")
	verif_assert(r.Start.Byte <= r.End.Byte, "node range is not inverted")
	_, synthetic := n.(*AnonSymbolExpr)
	// AnonSymbolExpr is documented as a synthetic expression (the splat's "current item");
	// its range is that of the splat marker, which is not part of the traversal applied to it
	if len(w.stack) > 0 && !synthetic {
		p := w.stack[len(w.stack)-1]
		how := " (error-free input)"
		if w.Errors {
			how = " (input with syntax errors)"
		}
		pair := w.kinds[len(w.kinds)-1] + " > " + kind + how
		verif_assert(r.Start.Byte >= p.Start.Byte, "child starts inside its parent: "+pair)
		verif_assert(r.End.Byte <= p.End.Byte, "child ends inside its parent: "+pair)
	}
	w.stack = append(w.stack, r)
	w.kinds = append(w.kinds, kind)
	return nil
}

func (w *verifRangeWalker) Exit(n Node) hcl.Diagnostics {
	w.stack = w.stack[:len(w.stack)-1]
	w.kinds = w.kinds[:len(w.kinds)-1]
	return nil
}

func verifCheckDiags(diags hcl.Diagnostics, L int) {
	for _, d := range diags {
		if d.Subject != nil {
			verif_assert(d.Subject.Start.Byte >= 0, "diagnostic range starts inside the input")
			verif_assert(d.Subject.End.Byte <= L, "diagnostic range ends inside the input")
			verif_assert(d.Subject.Start.Byte <= d.Subject.End.Byte, "diagnostic range is not inverted")
		}
		if d.Context != nil {
			verif_assert(d.Context.Start.Byte >= 0, "diagnostic context starts inside the input")
			verif_assert(d.Context.End.Byte <= L, "diagnostic context ends inside the input")
		}
	}
}

// verifParseAndCheck runs one native-syntax entry point on src and checks what C17 states
// about its result: a tree and/or diagnostics come back (no panic, no endless loop), every
// range of a node or diagnostic lies inside the input, children lie inside their parents,
// and an input without error diagnostics evaluates without panicking.
func verifParseAndCheck(which int, src []byte) {
	L := len(src)
	start := hcl.Pos{Byte: 0, Line: 1, Column: 1}
	var diags hcl.Diagnostics
	var expr Expression
	switch which {
	case 0:
		var f *hcl.File
		f, diags = ParseConfig(src, "f", start)
		verif_assert(f != nil, "ParseConfig always returns a file")
		if f == nil {
			return
		}
		verif_assert(f.Body != nil, "ParseConfig always returns a body")
		if body, ok := f.Body.(*Body); ok {
			Walk(body, &verifRangeWalker{L: L, Errors: diags.HasErrors()})
			if !diags.HasErrors() {
				attrs, _ := body.JustAttributes()
				for _, a := range attrs {
					_, vd := a.Expr.Value(nil)
					verifCheckDiags(vd, L)
				}
			}
		}
	case 1:
		expr, diags = ParseExpression(src, "f", start)
	case 2:
		expr, diags = ParseTemplate(src, "f", start)
	case 3:
		var tr hcl.Traversal
		tr, diags = ParseTraversalAbs(src, "f", start)
		for _, st := range tr {
			r := st.SourceRange()
			verif_assert(r.Start.Byte >= 0, "traversal step starts inside the input")
			verif_assert(r.End.Byte <= L, "traversal step ends inside the input")
		}
	}
	verifCheckDiags(diags, L)
	if expr != nil {
		Walk(expr, &verifRangeWalker{L: L, Errors: diags.HasErrors()})
		if !diags.HasErrors() {
			_, vd := expr.Value(nil)
			verifCheckDiags(vd, L)
		}
	}
}

// H_c17_parse: the four native-syntax entry points (configuration file, expression,
// template, traversal) on every byte string of length 0..L.
func H_c17_parse() {
	// the first choice partitions the input space for sharding: entry x top two bits of byte 0
	slice := nondet_choice("entry-x-quadrant", 16)
	which := slice % 4
	L := nondet_choice("L", verif_bound("parse-maxL", verifParseMaxL, verifParseMaxL)+1) // 3 bytes: 6 of 16 slices did not finish in 2 h each
	src := nondet_bytes("src", L)
	if L == 0 {
		verif_assume(slice/4 == 0)
	} else {
		verif_assume(int(src[0]>>6) == slice/4)
	}
	verifParseAndCheck(which, src)
	verif_witness()
}

// verifSpell appends to spelled one accepted spelling of byte c inside a quoted string and
// returns it; the choice of spelling is nondeterministic (assumptions discard the spellings
// the dialect does not offer for this byte).
func verifSpell(spelled []byte, c byte, afterHex *bool, withTemplateEscapes bool) []byte {
	nsp := 4
	if withTemplateEscapes {
		nsp = 5
	}
	switch nondet_choice("spelling", nsp) {
	case 0: // raw
		verif_assume(c != '"')
		verif_assume(c != '\\')
		verif_assume(c != '\n')
		verif_assume(c != '\r')
		verif_assume(c != '$')
		verif_assume(c != '%')
		verif_assume(c >= 0x20)
		verif_assume(c < 0x7f)
		if *afterHex {
			isHex := (c >= '0' && c <= '9') || (c >= 'a' && c <= 'f') || (c >= 'A' && c <= 'F')
			verif_assume(!isHex)
		}
		spelled = append(spelled, c)
		*afterHex = false
	case 1: // named escape
		switch c {
		case '\n':
			spelled = append(spelled, '\\', 'n')
		case '\r':
			spelled = append(spelled, '\\', 'r')
		case '\t':
			spelled = append(spelled, '\\', 't')
		case '"':
			spelled = append(spelled, '\\', '"')
		case '\\':
			spelled = append(spelled, '\\', '\\')
		default:
			verif_assume(false)
		}
		*afterHex = false
	case 2:
		verif_assume(c < 0x80)
		spelled = append(spelled, '\\', 'x', hexdU[c>>4], hexdU[c&15])
		*afterHex = true
	case 3:
		verif_assume(c < 0x80)
		spelled = append(spelled, '\\', 'x', hexdL[c>>4], hexdL[c&15])
		*afterHex = true
	case 4: // a lone template-marker character: "$" / "%" not followed by "{" may be raw
		verif_assume(c == '$' || c == '%')
		spelled = append(spelled, c)
		*afterHex = false
	}
	return spelled
}

// verifHeredocForm: the value written as a heredoc: every character of the body stands for
// itself (backslashes and quotes included), the value is the body with its line ends.
func verifHeredocForm(indented bool) {
	n := 1 + nondet_choice("value-len", verif_bound("heredoc-value-len", 2, 3))
	var value []byte
	for i := 0; i < n; i++ {
		c := nondet_u8("byte")
		if c != '\n' {
			verif_assume(c >= 0x20)
			verif_assume(c < 0x7f)
		}
		value = append(value, c)
	}
	for i := 0; i+1 < n; i++ {
		if value[i] == '$' || value[i] == '%' {
			verif_assume(value[i+1] != '{') // a template sequence would start here
		}
	}
	src := append(append([]byte("K = <<EOTX\n"), value...), "\nEOTX\n"...)
	if indented {
		// <<- form: every line (and the marker) carries four spaces of indentation, which are
		// not part of the value; lines are non-blank text here
		for _, c := range value {
			verif_assume(c != '\n')
			verif_assume(c != ' ')
		}
		src = append(append([]byte("K = <<-EOTX\n    "), value...), "\n    EOTX\n"...)
	}
	f, diags := ParseConfig(src, "p", hcl.Pos{Byte: 0, Line: 1, Column: 1})
	verifCheckDiags(diags, len(src))
	verif_assert(!diags.HasErrors(), "a heredoc loads without an error")
	if diags.HasErrors() {
		return
	}
	a := f.Body.(*Body).Attributes["K"]
	verif_assert(a != nil, "the attribute keeps its name")
	if a == nil {
		return
	}
	v, vd := a.Expr.Value(nil)
	verif_assert(!vd.HasErrors(), "the heredoc evaluates without an error")
	verif_assert(v.Type() == cty.String, "a heredoc is a string")
	if v.Type() != cty.String {
		return
	}
	got := v.AsString()
	verif_assert(len(got) == n+1, "the heredoc value is its body plus the final line end")
	if len(got) == n+1 {
		for k := 0; k < n; k++ {
			verif_assert(got[k] == value[k], "every character of a heredoc body stands for itself")
		}
		verif_assert(got[n] == '\n', "the heredoc value ends with the line end of its last line")
	}
	verif_witness()
}

// H_c14_profile_string: end to end through the real scanner, parser and template evaluation:
// a profile line  K = "<spelling>"  (top level, or inside a labelled block whose label is
// spelled the same way, or "${"/"%{" written with the escaped markers "$${"/"%%{") loads
// without diagnostics and yields exactly the intended string.
func H_c14_profile_string() {
	form := nondet_choice("form", 6)
	if form >= 4 {
		verifHeredocForm(form == 5)
		return
	}
	n := nondet_choice("value-len", verif_bound("profile-value-len", 2, 3)+1)
	var value, spelled []byte
	afterHex := false
	for i := 0; i < n; i++ {
		c := nondet_u8("byte")
		value = append(value, c)
		spelled = verifSpell(spelled, c, &afterHex, i == n-1)
	}
	var src []byte
	switch form {
	case 0:
		src = append(append([]byte("K = \""), spelled...), "\"\n"...)
	case 1:
		src = append(append([]byte("B \"l\" {\n  # c\n\n  K = \""), spelled...), "\"\n}\n"...)
	case 2: // escaped template markers around the value: $${ and %%{ mean the literal text ${ and %{
		src = append(append([]byte("K = \"$${"), spelled...), "%%{\"\n"...)
		value = append(append([]byte("${"), value...), "%{"...)
	case 3: // the value as a block label
		src = append(append([]byte("B \""), spelled...), "\" {\n}\n"...)
	}
	f, diags := ParseConfig(src, "p", hcl.Pos{Byte: 0, Line: 1, Column: 1})
	verifCheckDiags(diags, len(src))
	verif_assert(!diags.HasErrors(), "an accepted spelling loads without an error")
	if diags.HasErrors() {
		return
	}
	body := f.Body.(*Body)
	var got string
	switch form {
	case 0, 2:
		verif_assert(len(body.Attributes) == 1, "one attribute")
		verif_assert(len(body.Blocks) == 0, "no block")
		a := body.Attributes["K"]
		verif_assert(a != nil, "the attribute keeps its name")
		if a == nil {
			return
		}
		v, vd := a.Expr.Value(nil)
		verif_assert(!vd.HasErrors(), "the value evaluates without an error")
		verif_assert(v.Type() == cty.String, "a quoted value is a string")
		if v.Type() != cty.String {
			return
		}
		got = v.AsString()
	case 1:
		verif_assert(len(body.Blocks) == 1, "one block")
		if len(body.Blocks) != 1 {
			return
		}
		b := body.Blocks[0]
		verif_assert(b.Type == "B", "block type")
		verif_assert(len(b.Labels) == 1, "one label")
		if len(b.Labels) == 1 {
			verif_assert(b.Labels[0] == "l", "label value")
		}
		a := b.Body.Attributes["K"]
		verif_assert(a != nil, "the attribute keeps its name")
		if a == nil {
			return
		}
		v, vd := a.Expr.Value(nil)
		verif_assert(!vd.HasErrors(), "the value evaluates without an error")
		verif_assert(v.Type() == cty.String, "a quoted value is a string")
		if v.Type() != cty.String {
			return
		}
		got = v.AsString()
	case 3:
		verif_assert(len(body.Blocks) == 1, "one block")
		if len(body.Blocks) != 1 {
			return
		}
		verif_assert(len(body.Blocks[0].Labels) == 1, "one label")
		if len(body.Blocks[0].Labels) != 1 {
			return
		}
		got = body.Blocks[0].Labels[0]
	}
	verif_assert(len(got) == len(value), "the loaded string has the value's length")
	if len(got) == len(value) {
		for k := range value {
			verif_assert(got[k] == value[k], "the loaded string equals the value")
		}
	}
	verif_witness()
}

// verifSkeletons: small well-formed sources that together visit blocks, labels, nested
// blocks, lists, objects, templates with interpolation and control sequences, heredocs,
// for-expressions, function calls, conditionals, splats, indexing and operators.
var verifSkeletons = []string{
	"k = \"%{for a, b in l}x${b}%{endfor}\"\r\nm = <<E\r\nx\r\nE\r\n",
	"A \"l\" {\n  k = \"v${1}w\"\n  B {\n    n = [1, \"x\"]\n  }\n}\n",
	"k = {a = 1, \"b\" = f(2, x...)}\nm = <<E\n t${a}\nE\n",
	"k = [for i, v in l: v if i]\nj = a ? b.c[0] : d.*.e\n",
	"k = \"%{if a}x%{else}y%{endif}\"\nn = -1 + (2 * !t)\n",
	"k = {for k, v in m: k => v...}\nh = <<-E\n  a\n  E\nz = a[*].b\n",
}

// H_c17_mutate: single-fault mutations of well-formed sources: one byte at any position of
// a skeleton is replaced by any byte value, then the configuration-file entry point runs
// with all the checks of verifParseAndCheck.
func H_c17_mutate() {
	// first choice = skeleton x quarter of its positions (partition for sharding)
	nsk := verif_bound("mutate-skeletons", 2, len(verifSkeletons))
	slice := nondet_choice("skeleton-x-quarter", nsk*4)
	k, q := slice/4, slice%4
	src := []byte(verifSkeletons[k])
	lo, hi := q*len(src)/4, (q+1)*len(src)/4
	p := lo + nondet_choice("position", hi-lo)
	src[p] = nondet_u8("byte")
	verifLexCheck(src, scanNormal)
	verifParseAndCheck(0, src)
	verif_witness()
}
