package hclsyntax

import (
	hcl "Havoc/pkg/profile/yaotl"
)

// textseg.ScanGraphemeClusters by its contract (see the json harness for the reasoning).
//
//verif:stub github.com/apparentlymart/go-textseg/v13/textseg.ScanGraphemeClusters
func verifStubGrapheme(data []byte, atEOF bool) (int, []byte, error) {
	if len(data) == 0 {
		return 0, nil, nil
	}
	n := 1
	ascii2 := true
	if data[0] >= 0x80 {
		ascii2 = false
	}
	if len(data) > 1 {
		if data[1] >= 0x80 {
			ascii2 = false
		}
		if data[0] == '\r' {
			if data[1] == '\n' {
				return 2, data[:2], nil
			}
		}
	}
	if !ascii2 {
		n = 1 + nondet_choice("grapheme-len", len(data))
	}
	return n, data[:n], nil
}

const verifStrLitAnyMaxL = 4

// H_c17_strlit_any: the string-literal sub-lexer accepts any bytes (quoted and unquoted
// mode) without panicking and loses nothing: its slices concatenate to the input.
func H_c17_strlit_any() {
	L := nondet_choice("L", verif_bound("strlit-maxL", verifStrLitAnyMaxL, 5)+1)
	quoted := nondet_bool("quoted")
	src := nondet_bytes("src", L)
	parts := scanStringLit(src, quoted)
	// totality holds for every byte string; losslessness is asserted for ASCII input (for
	// ill-formed UTF-8 after a backslash the helper repeats bytes; the main lexer flags such
	// input separately, and the statement's losslessness is about its tokens)
	for _, c := range src {
		if c >= 0x80 {
			verif_witness()
			return
		}
	}
	pos := 0
	for _, p := range parts {
		verif_assert(pos+len(p) <= L, "slices stay inside the input")
		if pos+len(p) > L {
			return
		}
		for k := range p {
			verif_assert(p[k] == src[pos+k], "slices carry the input bytes in order")
		}
		pos += len(p)
	}
	verif_assert(pos == L, "the slices cover the whole input (nothing is lost)")
	verif_witness()
}

const hexdU = "0123456789ABCDEF"
const hexdL = "0123456789abcdef"

// H_c14_strlit: every value of 0..2 arbitrary bytes, written with any of the spellings the
// dialect accepts for each byte (raw where legal, \n \r \t \" \\, \xHH in either hex case,
// $${ and %%{ for template markers), decodes to exactly that value with no error, and every
// diagnostic's range lies inside the token.
func H_c14_strlit() {
	n := nondet_choice("value-len", verif_bound("strlit-value-len", 2, 3)+1)
	var value, spelled []byte
	afterHex := false
	for i := 0; i < n; i++ {
		c := nondet_u8("byte")
		value = append(value, c)
		switch nondet_choice("spelling", 4) {
		case 0: // raw (only where a quoted literal may contain the byte as is)
			verif_assume(c != '"')
			verif_assume(c != '\\')
			verif_assume(c != '\n')
			verif_assume(c != '\r')
			verif_assume(c != '$')
			verif_assume(c != '%')
			verif_assume(c < 0x80) // raw non-ASCII must be valid UTF-8 sequences: outside the bound
			if afterHex {
				// \x takes a greedy run of hex digits in this dialect: a raw hex digit cannot
				// directly follow a \xHH escape (the writer must escape it too)
				isHex := (c >= '0' && c <= '9') || (c >= 'a' && c <= 'f') || (c >= 'A' && c <= 'F')
				verif_assume(!isHex)
			}
			spelled = append(spelled, c)
			afterHex = false
		case 1: // named escape
			switch c {
			case '\n':
				spelled = append(spelled, '\\', 'n')
			case '\r':
				spelled = append(spelled, '\\', 'r')
			case '\t':
				spelled = append(spelled, '\\', 't')
			case '"':
				spelled = append(spelled, '\\', '"')
			case '\\':
				spelled = append(spelled, '\\', '\\')
			default:
				verif_assume(false)
			}
			afterHex = false
		case 2: // \xHH upper case
			spelled = append(spelled, '\\', 'x', hexdU[c>>4], hexdU[c&15])
			afterHex = true
		case 3: // \xhh lower case
			spelled = append(spelled, '\\', 'x', hexdL[c>>4], hexdL[c&15])
			afterHex = true
		}
	}
	tok := Token{Type: TokenQuotedLit, Bytes: spelled, Range: hcl.Range{Filename: "f", Start: hcl.Pos{Line: 1, Column: 1, Byte: 0}, End: hcl.Pos{Line: 1, Column: 1, Byte: len(spelled)}}}
	got, diags := ParseStringLiteralToken(tok)
	for _, d := range diags {
		if d.Subject != nil {
			verif_assert(d.Subject.Start.Byte >= 0, "diagnostic range starts inside the token")
			verif_assert(d.Subject.End.Byte <= len(spelled), "diagnostic range ends inside the token")
			verif_assert(d.Subject.Start.Byte <= d.Subject.End.Byte, "diagnostic range is well-formed")
		}
	}
	verif_assert(len(diags) == 0, "an accepted spelling produces no diagnostic")
	verif_assert(len(got) == len(value), "the decoded string has the value's length")
	if len(got) == len(value) {
		for k := range value {
			verif_assert(got[k] == value[k], "the decoded string equals the value")
		}
	}
	verif_witness()
}
