package logr

// File-system environment for the symbolic run: os.* calls made by the code under
// analysis are redirected (//verif:stub, active inside gosx only) to an effect log with
// nondeterministic errors. Natively the real os functions run against a temp directory.

import (
	"errors"
	"os"
	"path/filepath"
)

type VerifFSOp struct {
	Op   string // stat, mkdir, mkdirall, create, openfile, write, close, writefile
	Path string
	File *os.File
	Data []byte
	Flag int // openfile: the flags it was opened with
}

var (
	VerifFSLog      []VerifFSOp
	VerifFSMayFail  bool // environment faults enabled (each os call may fail)
	verifErrNotExist = errors.New("verif: file does not exist")
	verifErrIO       = errors.New("verif: i/o error")
)

func VerifFSReset(mayFail bool) {
	VerifFSLog = nil
	VerifFSMayFail = mayFail
}

func verifFSErr(what string) error {
	if VerifFSMayFail {
		if nondet_bool("oserr:" + what) {
			return verifErrIO
		}
	}
	return nil
}

//verif:stub os.Stat
func verifStubStat(name string) (os.FileInfo, error) {
	if nondet_bool("os.Stat-missing") {
		VerifFSLog = append(VerifFSLog, VerifFSOp{Op: "stat", Path: name})
		return nil, verifErrNotExist
	}
	// the code under analysis only stats directories: "exists" means the directory exists
	VerifFSLog = append(VerifFSLog, VerifFSOp{Op: "stat-exists", Path: name})
	return nil, nil
}

//verif:stub os.IsNotExist
func verifStubIsNotExist(err error) bool { return err == verifErrNotExist }

//verif:stub os.MkdirAll
func verifStubMkdirAll(path string, perm os.FileMode) error {
	VerifFSLog = append(VerifFSLog, VerifFSOp{Op: "mkdirall", Path: path})
	return verifFSErr("mkdirall")
}

//verif:stub os.Mkdir
func verifStubMkdir(path string, perm os.FileMode) error {
	VerifFSLog = append(VerifFSLog, VerifFSOp{Op: "mkdir", Path: path})
	return verifFSErr("mkdir")
}

// verifIsDir: does the (cleaned) path denote a directory that exists in the modelled tree,
// i.e. the loot directories themselves, a directory made earlier, or an ancestor of one?
// Creating or opening a file at such a path fails in every OS.
func verifIsDir(name string) bool {
	c := filepath.Clean(name)
	if LogrInstance != nil {
		if VerifInside(LogrInstance.AgentPath, c) {
			return true
		}
	}
	for _, op := range VerifFSLog {
		if op.Op == "mkdir" || op.Op == "mkdirall" || op.Op == "stat-exists" {
			if VerifInside(filepath.Clean(op.Path), c) {
				return true
			}
		}
	}
	return false
}

//verif:stub os.Create
func verifStubCreate(name string) (*os.File, error) {
	if verifIsDir(name) {
		VerifFSLog = append(VerifFSLog, VerifFSOp{Op: "create-failed", Path: name})
		return nil, verifErrIO
	}
	if err := verifFSErr("create"); err != nil {
		VerifFSLog = append(VerifFSLog, VerifFSOp{Op: "create-failed", Path: name})
		return nil, err
	}
	f := new(os.File)
	VerifFSLog = append(VerifFSLog, VerifFSOp{Op: "create", Path: name, File: f})
	return f, nil
}

//verif:stub os.OpenFile
func verifStubOpenFile(name string, flag int, perm os.FileMode) (*os.File, error) {
	if verifIsDir(name) {
		VerifFSLog = append(VerifFSLog, VerifFSOp{Op: "openfile-failed", Path: name})
		return nil, verifErrIO
	}
	if err := verifFSErr("openfile"); err != nil {
		VerifFSLog = append(VerifFSLog, VerifFSOp{Op: "openfile-failed", Path: name})
		return nil, err
	}
	f := new(os.File)
	VerifFSLog = append(VerifFSLog, VerifFSOp{Op: "openfile", Path: name, File: f, Flag: flag})
	return f, nil
}

//verif:stub (*os.File).Write
func verifStubFileWrite(f *os.File, b []byte) (int, error) {
	if f == nil {
		return 0, os.ErrInvalid
	}
	if err := verifFSErr("write"); err != nil {
		return 0, err
	}
	VerifFSLog = append(VerifFSLog, VerifFSOp{Op: "write", File: f, Data: append([]byte(nil), b...)})
	return len(b), nil
}

//verif:stub (*os.File).WriteString
func verifStubFileWriteString(f *os.File, s string) (int, error) {
	return verifStubFileWrite(f, []byte(s))
}

//verif:stub (*os.File).Close
func verifStubFileClose(f *os.File) error {
	if f == nil {
		return os.ErrInvalid
	}
	VerifFSLog = append(VerifFSLog, VerifFSOp{Op: "close", File: f})
	return nil
}

//verif:stub os.ReadFile
func verifStubReadFile(name string) ([]byte, error) {
	if nondet_bool("os.ReadFile-fails") {
		return nil, verifErrNotExist
	}
	return []byte("<file>"), nil
}

//verif:stub os.WriteFile
func verifStubWriteFile(name string, data []byte, perm os.FileMode) error {
	if err := verifFSErr("writefile"); err != nil {
		return err
	}
	VerifFSLog = append(VerifFSLog, VerifFSOp{Op: "writefile", Path: name, Data: append([]byte(nil), data...)})
	return nil
}

// VerifFSEffects counts the effectful operations (everything but stat).
func VerifFSEffects() int {
	n := 0
	for _, op := range VerifFSLog {
		if op.Op != "stat" && op.Op != "stat-exists" {
			n++
		}
	}
	return n
}

// ---------------------------------------------------------------------------------
// containment oracle shared by the C07 harnesses

// VerifInside reports whether cleaned path p is dir itself or lies below it.
func VerifInside(p, dir string) bool {
	if p == dir {
		return true
	}
	if len(p) > len(dir) {
		if p[:len(dir)] == dir {
			if p[len(dir)] == '/' {
				return true
			}
		}
	}
	return false
}

// VerifLootRoot prepares the loot tree: "/L" inside gosx, a fresh temp dir natively.
func VerifLootRoot() string {
	VerifFSReset(false)
	if verif_symbolic() {
		LogrInstance = &Logr{Path: "/L", AgentPath: "/L/agents", ListenerPath: "/L/listener", ServerPath: "/L"}
		return "/L"
	}
	dir, err := os.MkdirTemp("", "verifloot")
	if err != nil {
		panic(err)
	}
	os.MkdirAll(dir+"/agents", 0o755)
	LogrInstance = &Logr{Path: dir, AgentPath: dir + "/agents", ListenerPath: dir + "/listener", ServerPath: dir}
	return dir
}

// VerifCreatedOutside: was anything created (or written) outside allowed (a directory below
// root)? Inside gosx the effect log is inspected; natively the real tree below root's
// parent is walked.
func VerifCreatedOutside(root, allowed string) bool {
	if verif_symbolic() {
		for _, op := range VerifFSLog {
			switch op.Op {
			case "mkdir", "mkdirall", "create", "openfile", "writefile":
				c := filepath.Clean(op.Path)
				if VerifInside(c, allowed) {
					continue
				}
				// creating the ancestors of the allowed directory is fine
				if VerifInside(allowed, c) {
					if op.Op == "mkdir" || op.Op == "mkdirall" {
						continue
					}
				}
				return true
			}
		}
		return false
	}
	outside := false
	base := filepath.Dir(root)
	filepath.Walk(base, func(p string, info os.FileInfo, err error) error {
		if err != nil || p == base {
			return nil
		}
		if !VerifInside(p, root) {
			// siblings of the loot root that predate the run (other temp dirs) are skipped
			if info.IsDir() && p != root {
				return filepath.SkipDir
			}
			return nil
		}
		if VerifInside(p, allowed) || VerifInside(allowed, p) || p == root+"/agents" {
			return nil
		}
		outside = true
		return nil
	})
	return outside
}

// VerifFileBytes returns what was written to the file created at path (nil, false if it
// was never created).
func VerifFileBytes(path string) ([]byte, bool) {
	if !verif_symbolic() {
		b, err := os.ReadFile(path)
		return b, err == nil
	}
	// replay the log with POSIX semantics: create and O_TRUNC empty the file, O_APPEND writes
	// at the end, any other handle writes from offset 0 of its own position over what is there
	want := filepath.Clean(path)
	exists := false
	var out []byte
	type handle struct {
		mine   bool
		app    bool
		offset int
	}
	handles := map[*os.File]*handle{}
	for _, op := range VerifFSLog {
		switch op.Op {
		case "create":
			if filepath.Clean(op.Path) == want {
				exists = true
				out = nil
				handles[op.File] = &handle{mine: true}
			}
		case "openfile":
			if filepath.Clean(op.Path) == want {
				exists = true
				if op.Flag&os.O_TRUNC != 0 {
					out = nil
				}
				handles[op.File] = &handle{mine: true, app: op.Flag&os.O_APPEND != 0}
			}
		case "write":
			h := handles[op.File]
			if h == nil {
				continue
			}
			if h.app {
				h.offset = len(out)
			}
			for k := 0; k < len(op.Data); k++ {
				if h.offset+k < len(out) {
					out[h.offset+k] = op.Data[k]
				} else {
					out = append(out, op.Data[k])
				}
			}
			h.offset += len(op.Data)
		}
	}
	if !exists {
		return nil, false
	}
	return out, true
}
