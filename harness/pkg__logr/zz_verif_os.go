package logr

// File-system environment for the symbolic run: os.* calls made by the code under
// analysis are redirected (//verif:stub, active inside gosx only) to an effect log with
// nondeterministic errors. Natively the real os functions run against a temp directory.

import (
	"errors"
	"os"
)

type VerifFSOp struct {
	Op   string // stat, mkdir, mkdirall, create, openfile, write, close, writefile
	Path string
	File *os.File
	Data []byte
}

var (
	VerifFSLog      []VerifFSOp
	VerifFSMayFail  bool // environment faults enabled (each os call may fail)
	verifErrNotExist = errors.New("verif: file does not exist")
	verifErrIO       = errors.New("verif: i/o error")
)

func VerifFSReset(mayFail bool) {
	VerifFSLog = nil
	VerifFSMayFail = mayFail
}

func verifFSErr(what string) error {
	if VerifFSMayFail {
		if nondet_bool("oserr:" + what) {
			return verifErrIO
		}
	}
	return nil
}

//verif:stub os.Stat
func verifStubStat(name string) (os.FileInfo, error) {
	VerifFSLog = append(VerifFSLog, VerifFSOp{Op: "stat", Path: name})
	if nondet_bool("os.Stat-missing") {
		return nil, verifErrNotExist
	}
	return nil, nil
}

//verif:stub os.IsNotExist
func verifStubIsNotExist(err error) bool { return err == verifErrNotExist }

//verif:stub os.MkdirAll
func verifStubMkdirAll(path string, perm os.FileMode) error {
	VerifFSLog = append(VerifFSLog, VerifFSOp{Op: "mkdirall", Path: path})
	return verifFSErr("mkdirall")
}

//verif:stub os.Mkdir
func verifStubMkdir(path string, perm os.FileMode) error {
	VerifFSLog = append(VerifFSLog, VerifFSOp{Op: "mkdir", Path: path})
	return verifFSErr("mkdir")
}

//verif:stub os.Create
func verifStubCreate(name string) (*os.File, error) {
	if err := verifFSErr("create"); err != nil {
		VerifFSLog = append(VerifFSLog, VerifFSOp{Op: "create-failed", Path: name})
		return nil, err
	}
	f := new(os.File)
	VerifFSLog = append(VerifFSLog, VerifFSOp{Op: "create", Path: name, File: f})
	return f, nil
}

//verif:stub os.OpenFile
func verifStubOpenFile(name string, flag int, perm os.FileMode) (*os.File, error) {
	if err := verifFSErr("openfile"); err != nil {
		VerifFSLog = append(VerifFSLog, VerifFSOp{Op: "openfile-failed", Path: name})
		return nil, err
	}
	f := new(os.File)
	VerifFSLog = append(VerifFSLog, VerifFSOp{Op: "openfile", Path: name, File: f})
	return f, nil
}

//verif:stub (*os.File).Write
func verifStubFileWrite(f *os.File, b []byte) (int, error) {
	if f == nil {
		return 0, os.ErrInvalid
	}
	if err := verifFSErr("write"); err != nil {
		return 0, err
	}
	VerifFSLog = append(VerifFSLog, VerifFSOp{Op: "write", File: f, Data: append([]byte(nil), b...)})
	return len(b), nil
}

//verif:stub (*os.File).WriteString
func verifStubFileWriteString(f *os.File, s string) (int, error) {
	return verifStubFileWrite(f, []byte(s))
}

//verif:stub (*os.File).Close
func verifStubFileClose(f *os.File) error {
	if f == nil {
		return os.ErrInvalid
	}
	VerifFSLog = append(VerifFSLog, VerifFSOp{Op: "close", File: f})
	return nil
}

//verif:stub os.WriteFile
func verifStubWriteFile(name string, data []byte, perm os.FileMode) error {
	if err := verifFSErr("writefile"); err != nil {
		return err
	}
	VerifFSLog = append(VerifFSLog, VerifFSOp{Op: "writefile", Path: name, Data: append([]byte(nil), data...)})
	return nil
}

// VerifFSEffects counts the effectful operations (everything but stat).
func VerifFSEffects() int {
	n := 0
	for _, op := range VerifFSLog {
		if op.Op != "stat" {
			n++
		}
	}
	return n
}
