package logr

// verifComponent: one path component chosen among the classic escapes and arbitrary
// non-separator, non-dot bytes ("ordinary name bytes"; '.' and '..' are explicit choices).
func verifComponent(name string, allowLong bool) string {
	kind := nondet_choice(name+"-kind", 5)
	switch kind {
	case 0:
		if !allowLong {
			verif_assume(false)
		}
		// long enough to spell a sibling that shares the directory's name as a prefix
		b := nondet_bytes(name, 9)
		for _, c := range b {
			verif_assume(c != '/')
			verif_assume(c != '\\')
			verif_assume(c != '.')
			verif_assume(c != 0)
		}
		return string(b)
	case 1:
		return ".."
	case 2:
		return "."
	case 3:
		return ""
	default:
		b := nondet_bytes(name, 1)
		for _, c := range b {
			verif_assume(c != '/')
			verif_assume(c != '\\')
			verif_assume(c != '.')
		}
		return string(b)
	}
}

func VerifPathName(name string, maxComp int) string {
	k := maxComp - nondet_choice(name+"-comps", maxComp)
	out := ""
	long := true
	for i := 0; i < k; i++ {
		if i > 0 {
			if nondet_bool(name + "-backslash") {
				out += "\\"
			} else {
				out += "/"
			}
		}
		c := verifComponent(name, long)
		if len(c) == 9 {
			long = false
		}
		out += c
	}
	return out
}

// H_c07_service_file: a third-party agent service supplies (agent id, file name, bytes);
// whatever they are, nothing is created outside <loot>/agents/<id>/Download for a plain id,
// and never outside <loot>/agents for a crafted id.
func H_c07_service_file() {
	root := VerifLootRoot()
	var id string
	crafted := !nondet_bool("plain-id")
	if crafted {
		id = VerifPathName("id", 2)
	} else {
		id = "11223344"
	}
	comps := 2
	if crafted {
		comps = 1
	}
	name := VerifPathName("file", comps)
	LogrInstance.DemonAddDownloadedFile(id, name, []byte("data"))
	if crafted {
		verif_assert(!VerifCreatedOutside(root, LogrInstance.AgentPath), "a crafted agent id never makes the teamserver write outside the agents directory of the loot tree")
	} else {
		verif_assert(!VerifCreatedOutside(root, LogrInstance.AgentPath+"/11223344/Download"), "a file supplied for an agent is created inside that agent's Download directory only")
	}
	verif_witness()
}

// H_c07_console_log: output logged for an agent id goes to that agent's directory.
func H_c07_console_log() {
	root := VerifLootRoot()
	crafted := !nondet_bool("plain-id")
	id := "11223344"
	if crafted {
		id = VerifPathName("id", 2)
	}
	LogrInstance.DemonAddOutput(id, map[string]string{"Type": "Good", "Message": "m", "Output": "o"}, "t")
	if crafted {
		verif_assert(!VerifCreatedOutside(root, LogrInstance.AgentPath), "a crafted agent id never makes the teamserver log outside the agents directory")
	} else {
		verif_assert(!VerifCreatedOutside(root, LogrInstance.AgentPath+"/11223344"), "console output is logged inside the agent's own directory")
	}
	verif_witness()
}

// H_c07_screenshot: screenshots land in the agent's Screenshots directory.
func H_c07_screenshot() {
	root := VerifLootRoot()
	name := VerifPathName("shot", 2)
	LogrInstance.DemonSaveScreenshot("11223344", name, []byte{1, 2, 3})
	verif_assert(!VerifCreatedOutside(root, LogrInstance.AgentPath+"/11223344/Screenshots"), "a screenshot is created inside the agent's Screenshots directory only")
	verif_witness()
}

