package socks

import (
	"errors"
	"net"
	"time"
)

// VerifHandler exposes the connection handler registered with SetHandler.
func (s *Socks) VerifHandler() func(s *Socks, conn net.Conn) { return s.handler }

// VerifStreamConn is a scripted client: the byte stream is delivered in phases (the next
// phase starts after the server has written a reply, like a conforming client that waits
// for the method selection) and in chunks whose sizes are chosen nondeterministically
// (TCP segmentation: one cut per phase at an arbitrary position). At the end of the last phase Read returns EOF.
type VerifStreamConn struct {
	Phases  [][]byte
	phase   int
	pos     int
	split   int
	Written [][]byte
	Closed  bool
	NoSplit bool // deliver every phase as one segment
	// Stream: data stage. Every Read delivers the next phase as one segment without waiting
	// for a reply; after the last phase the connection fails with VerifErrReset.
	Stream bool
}

var VerifErrReset = errors.New("connection reset by peer")

var VerifErrEOF = errors.New("EOF")

func (c *VerifStreamConn) Read(p []byte) (int, error) {
	if c.Stream {
		if c.phase < len(c.Phases) {
			if c.pos == len(c.Phases[c.phase]) {
				c.phase++
				c.pos = 0
			}
		}
		if c.phase >= len(c.Phases) {
			return 0, VerifErrReset
		}
		cur := c.Phases[c.phase]
		n := copy(p, cur[c.pos:])
		c.pos += n
		return n, nil
	}
	if c.phase >= len(c.Phases) {
		return 0, VerifErrEOF
	}
	cur := c.Phases[c.phase]
	rest := len(cur) - c.pos
	if rest == 0 {
		return 0, VerifErrEOF
	}
	// TCP segmentation: every phase is cut once, at a position chosen when its first byte is
	// read (position 0 / len = not cut); each Read returns one segment.
	if c.pos == 0 {
		c.split = 0
		if !c.NoSplit {
			c.split = nondet_choice("split", len(cur)+1)
		}
	}
	n := rest
	if c.pos < c.split {
		n = c.split - c.pos
	}
	if n > len(p) {
		n = len(p)
	}
	copy(p, cur[c.pos:c.pos+n])
	c.pos += n
	return n, nil
}

func (c *VerifStreamConn) Write(b []byte) (int, error) {
	c.Written = append(c.Written, append([]byte(nil), b...))
	if c.phase < len(c.Phases) {
		if c.pos == len(c.Phases[c.phase]) {
			c.phase++
			c.pos = 0
		}
	}
	return len(b), nil
}
func (c *VerifStreamConn) Close() error                       { c.Closed = true; return nil }
func (c *VerifStreamConn) LocalAddr() net.Addr                { return nil }
func (c *VerifStreamConn) RemoteAddr() net.Addr               { return nil }
func (c *VerifStreamConn) SetDeadline(t time.Time) error      { return nil }
func (c *VerifStreamConn) SetReadDeadline(t time.Time) error  { return nil }
func (c *VerifStreamConn) SetWriteDeadline(t time.Time) error { return nil }

// H_c15_greeting: method negotiation header for every byte stream of 0..6 bytes under every
// chunking: parsed exactly when VER=5 and all announced methods arrived.
func H_c15_greeting() {
	L := nondet_choice("L", 7)
	stream := nondet_bytes("stream", L)
	c := &VerifStreamConn{Phases: [][]byte{stream}}
	h, err := SubNegotiationClient(c)
	ok := false
	if L >= 2 {
		if stream[0] == 5 {
			if int(stream[1]) <= L-2 {
				ok = true
			}
		}
	}
	verif_assert((err == nil) == ok, "the greeting is accepted exactly when VER=5 and all announced methods are present")
	if err == nil {
		if ok {
			verif_assert(h.Version == 5, "greeting version")
			verif_assert(h.NMethods == stream[1], "greeting method count")
			verif_assert(len(h.Methods) == int(stream[1]), "greeting: as many methods as announced")
			for i := range h.Methods {
				verif_assert(h.Methods[i] == stream[2+i], "greeting methods in stream order")
			}
		}
	}
	verif_witness()
}

// verifRefRequest parses a SOCKS5 request per RFC 1928 s.4.
func verifRefRequest(s []byte) (SocksHeader, bool) {
	var h SocksHeader
	if len(s) < 4 {
		return h, false
	}
	if s[0] != 5 {
		return h, false
	}
	if s[2] != 0 {
		return h, false
	}
	h.Version, h.Command, h.RSV, h.ATYP = s[0], s[1], s[2], s[3]
	pos, n := 4, 0
	switch s[3] {
	case 1:
		n = 4
	case 4:
		n = 16
	case 3:
		if len(s) < 5 {
			return h, false
		}
		n = int(s[4])
		pos = 5
	default:
		return h, false
	}
	if len(s) < pos+n+2 {
		return h, false
	}
	h.IpDomain = s[pos : pos+n]
	h.Port = uint16(s[pos+n])<<8 | uint16(s[pos+n+1])
	return h, true
}

// H_c15_request: the request is parsed per RFC 1928 for every stream and every chunking.
func H_c15_request() {
	L := nondet_choice("L", verif_bound("socks-request-maxL", verifC15RequestMaxL, 22)+1)
	stream := nondet_bytes("stream", L)
	c := &VerifStreamConn{Phases: [][]byte{stream}}
	h, err := ReadSocksHeader(c)
	want, ok := verifRefRequest(stream)
	verif_assert((err == nil) == ok, "the request is accepted exactly when it is a complete, well-formed RFC 1928 request (whatever the TCP segmentation)")
	if err == nil {
		if ok {
			verif_assert(h.Command == want.Command, "request command")
			verif_assert(h.ATYP == want.ATYP, "request address type")
			verif_assert(h.Port == want.Port, "request port (network byte order)")
			verif_assert(len(h.IpDomain) == len(want.IpDomain), "request address length")
			for i := range want.IpDomain {
				if i < len(h.IpDomain) {
					verif_assert(h.IpDomain[i] == want.IpDomain[i], "request address bytes")
				}
			}
		}
	}
	verif_witness()
}

// H_c15_reply: CreateResponsePackage output parses back (RFC 1928 s.6) to the same reply
// code, address type, address and port for IPv4, IPv6 and every domain length 0..255.
func H_c15_reply() {
	atyp := []byte{IPv4, FQDN, IPv6}[nondet_choice("atyp", 3)]
	n := 4
	if atyp == IPv6 {
		n = 16
	}
	if atyp == FQDN {
		n = []int{0, 1, 2, 127, 128, 255}[nondet_choice("domain-len", 6)]
	}
	addr := make([]byte, n)
	if n > 0 {
		addr[0] = nondet_u8("addr-first")
		addr[n-1] = nondet_u8("addr-last")
	}
	port := nondet_u16("port")
	rep := nondet_u8("rep")
	out := CreateResponsePackage(rep, atyp, addr, port)
	want := 4 + n + 2
	if atyp == FQDN {
		want++
	}
	verif_assert(len(out) == want, "reply has the RFC 1928 length")
	if len(out) == want {
		verif_assert(out[0] == 5, "reply VER")
		verif_assert(out[1] == rep, "reply REP")
		verif_assert(out[2] == 0, "reply RSV")
		verif_assert(out[3] == atyp, "reply ATYP")
		pos := 4
		if atyp == FQDN {
			verif_assert(int(out[4]) == n, "reply domain length octet")
			pos = 5
		}
		if n > 0 {
			verif_assert(out[pos] == addr[0], "reply address")
			verif_assert(out[pos+n-1] == addr[n-1], "reply address")
		}
		verif_assert(uint16(out[pos+n])<<8|uint16(out[pos+n+1]) == port, "reply port in network byte order")
	}
	verif_witness()
}

const verifC15RequestMaxL = 12
