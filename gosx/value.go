// Derived from golang.org/x/tools/go/ssa/interp (BSD licence, see LICENSE.x-tools);
// the value domain is extended with symbolic scalars (*Term), symbolic strings
// (*symStr), opaque cells and ordered maps (*omap).

package main

import (
	"bytes"
	"fmt"
	"go/types"
	"unsafe"

	"golang.org/x/tools/go/ssa"
)

// Values
//
// - bool, numbers (native Go types)           concrete scalars
// - *Term                                      symbolic scalar (BV-n or Bool)
// - string                                     concrete string
// - *symStr                                    string with symbolic / opaque cells
// - *omap                                      maps (insertion ordered)
// - []value                                    slices (cells: native | *Term | opaque)
// - iface, structure, array, *value, tuple, *closure, *ssa.Function, *ssa.Builtin
type value interface{}

type tuple []value

type array []value

type iface struct {
	t types.Type // never an "untyped" type
	v value
}

type structure []value

// opaque is a cell whose content is not modelled (result of formatting a symbolic
// number etc.). Any computation that reads it abandons the path.
type opaque struct {
	payload value // for JSON produced by json.Marshal: the marshalled value (so that Unmarshal round-trips)
}

// symStr is an immutable string some of whose cells are symbolic or opaque.
type symStr struct {
	b []value // byte | *Term(w=8) | opaque
}

// absBytes is a []byte of symbolic length whose cells are not modelled (only sizes,
// re-slicing and identity exist); any cell access abandons the path.
type absBytes struct {
	id  int
	off *Term // 64-bit offset into buffer id
	n   *Term // 64-bit length
	c   *Term // 64-bit capacity
}

type iter interface {
	next(fr *frame) tuple
}

type closure struct {
	Fn  *ssa.Function
	Env []value
}

type bad struct{}

type chanVal struct{ id int }

func deref(t types.Type) types.Type {
	if p, ok := t.Underlying().(*types.Pointer); ok {
		return p.Elem()
	}
	panic(fmt.Sprintf("deref of non-pointer type %s", t))
}

// nil-tolerant variant of types.Identical.
func sameType(x, y types.Type) bool {
	if x == nil {
		return y == nil
	}
	return y != nil && types.Identical(x, y)
}

// ---------------------------------------------------------------------
// load / store with undo logging

func load(T types.Type, addr *value) value {
	switch T := T.Underlying().(type) {
	case *types.Struct:
		v := (*addr).(structure)
		a := make(structure, len(v))
		for i := range a {
			a[i] = load(T.Field(i).Type(), &v[i])
		}
		return a
	case *types.Array:
		v := (*addr).(array)
		a := make(array, len(v))
		for i := range a {
			a[i] = load(T.Elem(), &v[i])
		}
		return a
	default:
		return *addr
	}
}

func (i *interpreter) store(T types.Type, addr *value, v value) {
	switch T := T.Underlying().(type) {
	case *types.Struct:
		lhs := (*addr).(structure)
		rhs := v.(structure)
		for k := range lhs {
			i.store(T.Field(k).Type(), &lhs[k], rhs[k])
		}
	case *types.Array:
		lhs := (*addr).(array)
		rhs := v.(array)
		for k := range lhs {
			i.store(T.Elem(), &lhs[k], rhs[k])
		}
	default:
		i.setCell(addr, v)
	}
}

// setCell writes one cell, logging the old content when an undo log is active.
func (i *interpreter) setCell(addr *value, v value) {
	if i.undoOn {
		old := *addr
		i.undo = append(i.undo, undoRec{addr: addr, old: old})
	}
	*addr = v
}

type undoRec struct {
	addr *value
	old  value
	fn   func()
}

func (i *interpreter) rollback() {
	for k := len(i.undo) - 1; k >= 0; k-- {
		u := i.undo[k]
		if u.fn != nil {
			u.fn()
		} else {
			*u.addr = u.old
		}
	}
	i.undo = i.undo[:0]
}

// copyValue makes a deep copy of aggregates (struct/array) as Go value semantics demand.
func copyValue(v value) value {
	switch v := v.(type) {
	case structure:
		a := make(structure, len(v))
		for i := range v {
			a[i] = copyValue(v[i])
		}
		return a
	case array:
		a := make(array, len(v))
		for i := range v {
			a[i] = copyValue(v[i])
		}
		return a
	}
	return v
}

// ---------------------------------------------------------------------
// printing

func writeValue(buf *bytes.Buffer, v value, depth int) {
	if depth > 6 {
		buf.WriteString("…")
		return
	}
	switch v := v.(type) {
	case nil, bool, int, int8, int16, int32, int64, uint, uint8, uint16, uint32, uint64, uintptr, float32, float64, complex64, complex128:
		fmt.Fprintf(buf, "%v", v)
	case string:
		fmt.Fprintf(buf, "%q", v)
	case *Term:
		buf.WriteString("<" + v.String() + ">")
	case opaque:
		buf.WriteString("<?>")
	case *absBytes:
		fmt.Fprintf(buf, "<abstract bytes #%d off=%s len=%s>", v.id, v.off, v.n)
	case *symStr:
		buf.WriteString("sym\"")
		for _, c := range v.b {
			switch c := c.(type) {
			case byte:
				if c >= 32 && c < 127 {
					buf.WriteByte(c)
				} else {
					fmt.Fprintf(buf, "\\x%02x", c)
				}
			case *Term:
				buf.WriteString("{" + c.String() + "}")
			default:
				buf.WriteString("{?}")
			}
		}
		buf.WriteString("\"")
	case *omap:
		buf.WriteString("map[")
		for i, k := range v.keys {
			if i > 0 {
				buf.WriteString(" ")
			}
			writeValue(buf, k, depth+1)
			buf.WriteString(":")
			writeValue(buf, v.vals[i], depth+1)
		}
		buf.WriteString("]")
	case *value:
		if v == nil {
			buf.WriteString("<nil>")
		} else {
			fmt.Fprintf(buf, "%p", v)
		}
	case iface:
		if v.t == nil {
			buf.WriteString("(nil)")
			return
		}
		fmt.Fprintf(buf, "(%s, ", v.t)
		writeValue(buf, v.v, depth+1)
		buf.WriteString(")")
	case structure:
		buf.WriteString("{")
		for i, e := range v {
			if i > 0 {
				buf.WriteString(" ")
			}
			writeValue(buf, e, depth+1)
		}
		buf.WriteString("}")
	case array:
		buf.WriteString("[")
		for i, e := range v {
			if i > 0 {
				buf.WriteString(" ")
			}
			writeValue(buf, e, depth+1)
		}
		buf.WriteString("]")
	case []value:
		buf.WriteString("[")
		for i, e := range v {
			if i > 64 {
				buf.WriteString(" …")
				break
			}
			if i > 0 {
				buf.WriteString(" ")
			}
			writeValue(buf, e, depth+1)
		}
		buf.WriteString("]")
	case *ssa.Function, *ssa.Builtin, *closure:
		fmt.Fprintf(buf, "%p", v)
	case tuple:
		buf.WriteString("(")
		for i, e := range v {
			if i > 0 {
				buf.WriteString(", ")
			}
			writeValue(buf, e, depth+1)
		}
		buf.WriteString(")")
	default:
		fmt.Fprintf(buf, "<%T>", v)
	}
}

func toString(v value) string {
	var b bytes.Buffer
	writeValue(&b, v, 0)
	return b.String()
}

// ---------------------------------------------------------------------
// helpers on cells / strings

func isSym(v value) bool {
	_, ok := v.(*Term)
	return ok
}

// strCells returns the cells of a string value (string or *symStr).
func strCells(v value) []value {
	switch s := v.(type) {
	case string:
		out := make([]value, len(s))
		for i := 0; i < len(s); i++ {
			out[i] = s[i]
		}
		return out
	case *symStr:
		return s.b
	}
	panic(fmt.Sprintf("strCells: not a string: %T", v))
}

func strLen(v value) int {
	switch s := v.(type) {
	case string:
		return len(s)
	case *symStr:
		return len(s.b)
	}
	panic(fmt.Sprintf("strLen: not a string: %T", v))
}

// mkString normalises a cell list into string (all concrete) or *symStr.
func mkString(cells []value) value {
	allc := true
	for _, c := range cells {
		if _, ok := c.(byte); !ok {
			allc = false
			break
		}
	}
	if allc {
		b := make([]byte, len(cells))
		for i, c := range cells {
			b[i] = c.(byte)
		}
		return string(b)
	}
	cp := make([]value, len(cells))
	copy(cp, cells)
	return &symStr{b: cp}
}

func isStringVal(v value) bool {
	switch v.(type) {
	case string, *symStr:
		return true
	}
	return false
}

// unsafeCells views n consecutive cells starting at p (p must point into a []value backing array).
func unsafeCells(p *value, n int) []value {
	if n == 0 {
		return nil
	}
	return unsafe.Slice(p, n)
}
