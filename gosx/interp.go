// gosx: a symbolic interpreter for go/ssa.
//
// The frame/instruction machinery is derived from golang.org/x/tools/go/ssa/interp
// (BSD licence, see LICENSE.x-tools). Differences: symbolic values, explicit
// run-time-check obligations, decisions routed through the path explorer, an undo
// log for cross-path state, stubs/intrinsics instead of the "externals" table.

package main

import (
	"fmt"
	"go/token"
	"go/types"
	"os"
	"runtime"
	"runtime/debug"
	"slices"
	"strings"

	"golang.org/x/tools/go/ssa"
)

type continuation int

const (
	kNext continuation = iota
	kReturn
	kJump
)

type interpreter struct {
	prog               *ssa.Program
	globals            map[*ssa.Global]*value
	sizes              types.Sizes
	runtimeErrorString types.Type
	ex                 *Explorer

	undoOn bool
	undo   []undoRec

	initMode    bool // executing package initialisers (lenient)
	reflectRtypePtr types.Type      // *reflect.rtype of the loaded program (see reflect.go)
	reflectNative   map[string]bool // functions of package reflect that run as ordinary code
	initAllowed func(path string) bool
	initSkipped map[string]int

	intrinsics map[string]intrinsic
	stubs      map[string]*ssa.Function // harness redirects: callee full name -> harness function
	harnessPkg *ssa.Package

	steps     int64
	maxSteps  int64
	loopBound int
	trace     bool

	mutexes map[*value]*mutexState
	onces   map[*value]bool
	goCalls []goCall
	sched   *scheduler

	funcCache map[string]*ssa.Function
	syncMaps  map[*value]*omap
	maxSteps0 int64
	thorough  bool
	loopCutFn string
	loopCutN  int
	srcCache  map[string][]string
	srcRoot   string
	touched   map[*ssa.Function]bool // functions executed during exploration (for evidence)
}

type goCall struct {
	fn   value
	args []value
	pos  token.Pos
}

type deferred struct {
	fn    value
	args  []value
	instr *ssa.Defer
	tail  *deferred
}

type frame struct {
	i                *interpreter
	caller           *frame
	fn               *ssa.Function
	block, prevBlock *ssa.BasicBlock
	env              map[ssa.Value]value
	locals           []value
	defers           *deferred
	result           value
	panicking        bool
	panic            interface{}
	phitemps         []value
	visits           []int
	curInstr         ssa.Instruction
	callpos          token.Pos
}

// engineError wraps an unexpected Go panic inside the interpreter itself.
type engineError struct {
	v     interface{}
	stack string
	site  string
}

func (fr *frame) get(key ssa.Value) value {
	switch key := key.(type) {
	case nil:
		return nil
	case *ssa.Function, *ssa.Builtin:
		return key
	case *ssa.Const:
		return constValue(key)
	case *ssa.Global:
		return fr.i.global(key)
	}
	if r, ok := fr.env[key]; ok {
		return r
	}
	panic(fmt.Sprintf("get: no value for %T: %v", key, key.Name()))
}

func (i *interpreter) global(g *ssa.Global) *value {
	if r, ok := i.globals[g]; ok {
		return r
	}
	cell := zero(deref(g.Type()))
	p := &cell
	i.globals[g] = p
	return p
}

// site describes the current source position of fr (function + file:line).
func (fr *frame) site() string {
	if fr == nil {
		return "?"
	}
	pos := token.NoPos
	if fr.curInstr != nil {
		pos = fr.curInstr.Pos()
	}
	// fall back to nearest instruction with a position in the same block
	if pos == token.NoPos && fr.block != nil {
		for _, in := range fr.block.Instrs {
			if in.Pos() != token.NoPos {
				pos = in.Pos()
				if in == fr.curInstr {
					break
				}
			}
		}
	}
	p := fr.i.prog.Fset.Position(pos)
	file := p.Filename
	if k := strings.LastIndex(file, "/teamserver/"); k >= 0 {
		file = file[k+len("/teamserver/"):]
	} else if k := strings.LastIndex(file, "/src/"); k >= 0 {
		file = file[k+len("/src/"):]
	}
	return fmt.Sprintf("%s@%s:%d", fr.fn.String(), file, p.Line)
}

// stack renders the call chain of fr (innermost first).
func (fr *frame) stackTrace() []string {
	var out []string
	for f := fr; f != nil; f = f.caller {
		out = append(out, f.site())
		if len(out) > 24 {
			break
		}
	}
	return out
}

// rtPanic raises a Go run-time error in the target program.
func (i *interpreter) rtPanic(fr *frame, msg string) {
	panic(targetPanic{v: iface{t: i.runtimeErrorString, v: "runtime error: " + msg}, runtime: true, msg: msg, site: fr.site()})
}

// truth reduces a bool-or-Term to a concrete branch decision.
func (fr *frame) truth(v value, why string) bool {
	switch b := v.(type) {
	case bool:
		return b
	case *Term:
		if b.isConst() {
			return b.val != 0
		}
		return fr.i.ex.branch(fr, b, why)
	case opaque:
		abandon("branch on an opaque cell")
	}
	panic(fmt.Sprintf("truth: not a boolean: %T", v))
}

func (i *interpreter) preempt(fr *frame, why string) {
	if i.sched != nil {
		i.sched.preempt(fr, why)
	}
}

func (fr *frame) runDefer(d *deferred) {
	var ok bool
	defer func() {
		if !ok {
			r := recover()
			switch r.(type) {
			case targetPanic:
				fr.panicking = true
				fr.panic = r
			default:
				panic(r)
			}
		}
	}()
	fr.i.call(fr, d.instr.Pos(), d.fn, d.args)
	ok = true
}

func (fr *frame) runDefers() {
	for d := fr.defers; d != nil; d = d.tail {
		fr.runDefer(d)
	}
	fr.defers = nil
	if fr.panicking {
		panic(fr.panic) // new panic, or still panicking
	}
}

func (i *interpreter) lookupMethod(typ types.Type, meth *types.Func) *ssa.Function {
	return i.prog.LookupMethod(typ, meth.Pkg(), meth.Name())
}

func (fr *frame) visitInstr(instr ssa.Instruction) continuation {
	i := fr.i
	switch instr := instr.(type) {
	case *ssa.DebugRef:
		// no-op

	case *ssa.UnOp:
		fr.env[instr] = fr.unop(instr, fr.get(instr.X))

	case *ssa.BinOp:
		fr.env[instr] = fr.binop(instr.Op, instr.X.Type(), instr.Y.Type(), fr.get(instr.X), fr.get(instr.Y))

	case *ssa.Call:
		fn, args := fr.prepareCall(&instr.Call)
		fr.env[instr] = i.call(fr, instr.Pos(), fn, args)

	case *ssa.ChangeInterface:
		fr.env[instr] = fr.get(instr.X)

	case *ssa.ChangeType:
		fr.env[instr] = fr.get(instr.X)

	case *ssa.Convert:
		fr.env[instr] = fr.conv(instr.Type(), instr.X.Type(), fr.get(instr.X))

	case *ssa.SliceToArrayPointer:
		fr.env[instr] = fr.sliceToArrayPointer(instr.Type(), instr.X.Type(), fr.get(instr.X))

	case *ssa.MakeInterface:
		fr.env[instr] = iface{t: instr.X.Type(), v: fr.get(instr.X)}

	case *ssa.Extract:
		fr.env[instr] = fr.get(instr.Tuple).(tuple)[instr.Index]

	case *ssa.Slice:
		fr.env[instr] = fr.slice(instr, fr.get(instr.X), fr.get(instr.Low), fr.get(instr.High), fr.get(instr.Max))

	case *ssa.Return:
		switch len(instr.Results) {
		case 0:
		case 1:
			fr.result = fr.get(instr.Results[0])
		default:
			var res []value
			for _, r := range instr.Results {
				res = append(res, fr.get(r))
			}
			fr.result = tuple(res)
		}
		fr.block = nil
		return kReturn

	case *ssa.RunDefers:
		fr.runDefers()

	case *ssa.Panic:
		panic(targetPanic{v: fr.get(instr.X), site: fr.site()})

	case *ssa.Send:
		abandon("channel send")

	case *ssa.Store:
		p := fr.get(instr.Addr).(*value)
		if p == nil {
			i.rtPanic(fr, "invalid memory address or nil pointer dereference")
		}
		if al, isAlloc := instr.Addr.(*ssa.Alloc); !(isAlloc && !al.Heap) {
			i.preempt(fr, "store")
		}
		i.store(deref(instr.Addr.Type()), p, fr.get(instr.Val))

	case *ssa.If:
		succ := 1
		if fr.truth(fr.get(instr.Cond), "if") {
			succ = 0
		}
		fr.prevBlock, fr.block = fr.block, fr.block.Succs[succ]
		return kJump

	case *ssa.Jump:
		fr.prevBlock, fr.block = fr.block, fr.block.Succs[0]
		return kJump

	case *ssa.Defer:
		fn, args := fr.prepareCall(&instr.Call)
		defers := &fr.defers
		if into := fr.get(instr.DeferStack); into != nil {
			defers = into.(**deferred)
		}
		*defers = &deferred{
			fn:    fn,
			args:  args,
			instr: instr,
			tail:  *defers,
		}

	case *ssa.Go:
		fn, args := fr.prepareCall(&instr.Call)
		if i.sched != nil {
			i.sched.spawn(fr, fn, args, instr.Pos())
		} else {
			i.goCalls = append(i.goCalls, goCall{fn: fn, args: args, pos: instr.Pos()})
		}

	case *ssa.MakeChan:
		i.ex.chanSeq++
		fr.env[instr] = &chanVal{id: i.ex.chanSeq}

	case *ssa.Alloc:
		var addr *value
		if instr.Heap {
			addr = new(value)
			fr.env[instr] = addr
		} else {
			addr = fr.env[instr].(*value)
		}
		*addr = zero(deref(instr.Type()))

	case *ssa.MakeSlice:
		ln := fr.makeSize(fr.get(instr.Len), instr.Len.Type(), "len")
		cp := fr.makeSize(fr.get(instr.Cap), instr.Cap.Type(), "cap")
		if ln > cp {
			i.rtPanic(fr, "makeslice: cap out of range")
		}
		if cp > 1<<26 {
			abandon("makeslice of %d elements", cp)
		}
		slice := make([]value, cp)
		tElt := instr.Type().Underlying().(*types.Slice).Elem()
		if b, ok := tElt.Underlying().(*types.Basic); ok {
			z := zero(b)
			for k := range slice {
				slice[k] = z
			}
		} else {
			for k := range slice {
				slice[k] = zero(tElt)
			}
		}
		fr.env[instr] = slice[:ln]

	case *ssa.MakeMap:
		fr.env[instr] = makeMap(instr.Type().Underlying().(*types.Map).Key())

	case *ssa.Range:
		fr.env[instr] = rangeIter(fr, fr.get(instr.X), instr.X.Type())

	case *ssa.Next:
		fr.env[instr] = fr.get(instr.Iter).(iter).next(fr)

	case *ssa.FieldAddr:
		p := fr.get(instr.X).(*value)
		if p == nil {
			i.rtPanic(fr, "invalid memory address or nil pointer dereference")
		}
		fr.env[instr] = &(*p).(structure)[instr.Field]

	case *ssa.Field:
		fr.env[instr] = copyValue(fr.get(instr.X).(structure)[instr.Field])

	case *ssa.IndexAddr:
		x := fr.get(instr.X)
		idx := fr.get(instr.Index)
		_, symIdx := idx.(*Term)
		switch x := x.(type) {
		case *absBytes:
			abandon("cell access into an abstract buffer")
		case []value:
			if symIdx && onlyLoaded(instr) {
				// read-only use with a symbolic index: resolved at the load as an ite-chain
				fr.env[instr] = &symRef{cells: x, idx: idx, t: instr.Index.Type()}
				break
			}
			k := fr.checkIndex(idx, instr.Index.Type(), len(x))
			fr.env[instr] = &x[k]
		case *value: // *array
			if x == nil {
				i.rtPanic(fr, "invalid memory address or nil pointer dereference")
			}
			a := (*x).(array)
			if symIdx && onlyLoaded(instr) {
				fr.env[instr] = &symRef{cells: a, idx: idx, t: instr.Index.Type()}
				break
			}
			k := fr.checkIndex(idx, instr.Index.Type(), len(a))
			fr.env[instr] = &a[k]
		default:
			panic(fmt.Sprintf("unexpected x type in IndexAddr: %T", x))
		}

	case *ssa.Index:
		x := fr.get(instr.X)
		idx := fr.get(instr.Index)
		switch x := x.(type) {
		case array:
			fr.env[instr] = norm(copyValue(fr.indexRead(x, idx, instr.Index.Type())), instr.Type())
		case string:
			if _, sym := idx.(*Term); sym {
				fr.env[instr] = norm(fr.indexRead(strCells(x), idx, instr.Index.Type()), instr.Type())
			} else {
				fr.env[instr] = x[fr.checkIndex(idx, instr.Index.Type(), len(x))]
			}
		case *symStr:
			fr.env[instr] = norm(fr.indexRead(x.b, idx, instr.Index.Type()), instr.Type())
		default:
			panic(fmt.Sprintf("unexpected x type in Index: %T", x))
		}

	case *ssa.Lookup:
		fr.env[instr] = fr.lookup(instr, fr.get(instr.X), fr.get(instr.Index))

	case *ssa.MapUpdate:
		m := fr.get(instr.Map).(*omap)
		if m == nil {
			i.rtPanic(fr, "assignment to entry in nil map")
		}
		m.insert(fr, fr.get(instr.Key), copyValue(fr.get(instr.Value)))

	case *ssa.TypeAssert:
		fr.env[instr] = fr.typeAssert(instr, fr.get(instr.X).(iface))

	case *ssa.MakeClosure:
		var bindings []value
		for _, binding := range instr.Bindings {
			bindings = append(bindings, fr.get(binding))
		}
		fr.env[instr] = &closure{instr.Fn.(*ssa.Function), bindings}

	case *ssa.Phi:
		panic("unreachable: phis are processed at block entry")

	case *ssa.Select:
		abandon("select statement")

	default:
		panic(fmt.Sprintf("unexpected instruction: %T", instr))
	}
	return kNext
}

// makeSize evaluates a make() size operand (obligation: non-negative, not huge).
func (fr *frame) makeSize(v value, t types.Type, what string) int {
	c, tm := idx64(v, t)
	if tm == nil {
		if c < 0 {
			fr.i.rtPanic(fr, "makeslice: "+what+" out of range")
		}
		return int(c)
	}
	const huge = 1 << 40
	bad := mkBOr(mkCmp(OpSlt, tm, mkConst(64, 0)), mkCmp(OpSlt, mkConst(64, huge), tm))
	if fr.truth(norm(bad, boolType), "makeslice") {
		fr.i.rtPanic(fr, "makeslice: "+what+" out of range (or allocation of more than 2^40 elements)")
	}
	return int(fr.i.ex.concretize(fr, tm, 0, huge))
}

func (fr *frame) prepareCall(call *ssa.CallCommon) (fn value, args []value) {
	v := fr.get(call.Value)
	if call.Method == nil {
		fn = v
	} else {
		recv := v.(iface)
		if recv.t == nil {
			fr.i.rtPanic(fr, "invalid memory address or nil pointer dereference (method call on nil interface)")
		}
		if f := fr.i.lookupMethod(recv.t, call.Method); f == nil {
			panic(fmt.Sprintf("method set for dynamic type %v does not contain %s", recv.t, call.Method))
		} else {
			fn = f
		}
		args = append(args, recv.v)
	}
	for _, arg := range call.Args {
		args = append(args, fr.get(arg))
	}
	return
}

func (i *interpreter) call(caller *frame, callpos token.Pos, fn value, args []value) value {
	switch fn := fn.(type) {
	case *ssa.Function:
		if fn == nil {
			i.rtPanic(caller, "invalid memory address or nil pointer dereference (call of nil func)")
		}
		return i.callSSA(caller, callpos, fn, args, nil)
	case *closure:
		return i.callSSA(caller, callpos, fn.Fn, args, fn.Env)
	case *ssa.Builtin:
		return caller.callBuiltin(callpos, fn, args)
	}
	panic(fmt.Sprintf("cannot call %T", fn))
}

func resultZero(fn *ssa.Function) value {
	res := fn.Signature.Results()
	switch res.Len() {
	case 0:
		return nil
	case 1:
		return zero(res.At(0).Type())
	}
	return zero(res)
}

func (i *interpreter) callSSA(caller *frame, callpos token.Pos, fn *ssa.Function, args []value, env []value) (result value) {
	if i.initMode {
		if fn.Synthetic == "package initializer" {
			path := fn.Pkg.Pkg.Path()
			if !i.initAllowed(path) {
				i.initSkipped[path]++
				return nil
			}
		}
		// lenient: a failing call yields the zero value
		defer func() {
			if r := recover(); r != nil {
				i.initSkipped["call:"+fn.String()]++
				result = resultZero(fn)
			}
		}()
	}
	if fn.Parent() == nil {
		name := fn.String()
		if st, ok := i.stubs[name]; ok && !i.initMode {
			if caller == nil || !i.inStub(caller, st) {
				fn = st
				env = nil
			}
		} else if in, ok := i.intrinsics[name]; ok {
			fr := &frame{i: i, caller: caller, fn: fn, callpos: callpos}
			return in(fr, args)
		} else if in := i.patternIntrinsic(fn); in != nil {
			fr := &frame{i: i, caller: caller, fn: fn, callpos: callpos}
			return in(fr, args)
		}
		if fn.Blocks == nil {
			i.buildFor(fn)
		}
		if fn.Blocks == nil && fn.Pkg != nil && fn.Pkg.Pkg.Path() == "math/big" {
			// assembly kernels of math/big have pure Go twins (arith.go: addVV_g, shlVU_g, ...)
			if g := fn.Pkg.Func(fn.Name() + "_g"); g != nil {
				if g.Blocks == nil {
					i.buildFor(g)
				}
				if g.Blocks != nil {
					fn = g
				}
			}
		}
		if fn.Blocks == nil {
			abandon("no code for function %s", name)
		}
	} else if fn.Blocks == nil {
		i.buildFor(fn)
	}
	if fn.TypeParams().Len() > 0 && len(fn.TypeArgs()) == 0 {
		abandon("uninstantiated generic function %s", fn)
	}
	if i.touched != nil {
		i.touched[fn] = true
	}

	fr := &frame{i: i, caller: caller, fn: fn, callpos: callpos}
	fr.env = make(map[ssa.Value]value, 16)
	fr.block = fn.Blocks[0]
	fr.locals = make([]value, len(fn.Locals))
	for k, l := range fn.Locals {
		fr.locals[k] = zero(deref(l.Type()))
		fr.env[l] = &fr.locals[k]
	}
	for k, p := range fn.Params {
		fr.env[p] = args[k]
	}
	for k, fv := range fn.FreeVars {
		fr.env[fv] = env[k]
	}
	for fr.block != nil {
		fr.runFrame()
	}
	return fr.result
}

// inStub reports whether caller (or one of its callers) is executing stub st, so that a
// stub may call the real function it replaces.
func (i *interpreter) inStub(fr *frame, st *ssa.Function) bool {
	for f := fr; f != nil; f = f.caller {
		if f.fn == st {
			return true
		}
	}
	return false
}

func (fr *frame) runFrame() {
	defer func() {
		if fr.block == nil {
			return // normal return
		}
		r := recover()
		switch p := r.(type) {
		case targetPanic:
			fr.panicking = true
			fr.panic = p
			fr.runDefers()
			fr.block = fr.fn.Recover
			if fr.block == nil {
				// recovered in a function without named results: return zero values
				fr.result = resultZero(fr.fn)
			}
		case pathEnd:
			if p.site == "" {
				p.site = fr.site()
			}
			panic(p)
		case engineError:
			panic(p)
		default:
			if _, ok := r.(runtime.Error); ok || r != nil {
				panic(engineError{v: r, stack: string(debug.Stack()), site: strings.Join(fr.stackTrace(), " <- ")})
			}
		}
	}()

	i := fr.i
	for {
		if fr.visits == nil {
			fr.visits = make([]int, len(fr.fn.Blocks))
		}
		fr.visits[fr.block.Index]++
		if i.loopCutN > 0 && fr.visits[fr.block.Index] > i.loopCutN && !i.initMode && strings.Contains(fr.fn.String(), i.loopCutFn) {
			i.ex.stats.LoopCuts++
			panic(pathEnd{kind: "assume", msg: "loop-cut"})
		}
		if fr.visits[fr.block.Index] > i.loopBound && !i.initMode {
			panic(pathEnd{kind: "unwind", msg: fmt.Sprintf("loop bound %d exceeded in block %d", i.loopBound, fr.block.Index), site: fr.site()})
		}
		nonPhis := fr.executePhis()
		for _, instr := range nonPhis {
			i.steps++
			if i.steps > i.maxSteps && !i.initMode {
				panic(pathEnd{kind: "budget", msg: fmt.Sprintf("instruction budget %d exceeded", i.maxSteps), site: fr.site()})
			}
			fr.curInstr = instr
			if i.trace {
				if v, ok := instr.(ssa.Value); ok {
					fmt.Fprintln(os.Stderr, "\t", fr.fn.Name(), v.Name(), "=", instr)
				} else {
					fmt.Fprintln(os.Stderr, "\t", fr.fn.Name(), instr)
				}
			}
			if fr.visitInstr(instr) == kReturn {
				return
			}
		}
	}
}

func (fr *frame) executePhis() []ssa.Instruction {
	firstNonPhi := -1
	for k, instr := range fr.block.Instrs {
		if _, ok := instr.(*ssa.Phi); !ok {
			firstNonPhi = k
			break
		}
	}
	nonPhis := fr.block.Instrs[firstNonPhi:]
	if firstNonPhi > 0 {
		phis := fr.block.Instrs[:firstNonPhi]
		predIndex := slices.Index(fr.block.Preds, fr.prevBlock)
		fr.phitemps = fr.phitemps[:0]
		for _, phi := range phis {
			phi := phi.(*ssa.Phi)
			fr.phitemps = append(fr.phitemps, fr.get(phi.Edges[predIndex]))
		}
		for k, phi := range phis {
			fr.env[phi.(*ssa.Phi)] = fr.phitemps[k]
		}
	}
	return nonPhis
}

// doRecover implements the recover() built-in.
func doRecover(caller *frame) value {
	if caller != nil && !caller.panicking &&
		caller.caller != nil && caller.caller.panicking {
		caller.caller.panicking = false
		p := caller.caller.panic
		caller.caller.panic = nil
		switch p := p.(type) {
		case targetPanic:
			return p.v
		default:
			panic(fmt.Sprintf("unexpected panic type %T in target call to recover()", p))
		}
	}
	return iface{}
}

func (i *interpreter) lookupFunc(pkgPath, name string) *ssa.Function {
	key := pkgPath + "." + name
	if f, ok := i.funcCache[key]; ok {
		return f
	}
	var f *ssa.Function
	if pkg := i.prog.ImportedPackage(pkgPath); pkg != nil {
		pkg.Build()
		f = pkg.Func(name)
	}
	i.funcCache[key] = f
	return f
}

// initPackages runs the initialisers of the allowed packages concretely and leniently.
func (i *interpreter) initPackages(roots []*ssa.Package) {
	i.initMode = true
	defer func() { i.initMode = false }()
	for _, pkg := range roots {
		if init := pkg.Func("init"); init != nil {
			func() {
				defer func() {
					if r := recover(); r != nil {
						fmt.Fprintf(os.Stderr, "gosx: init of %s failed: %v\n", pkg.Pkg.Path(), r)
					}
				}()
				i.callSSA(nil, token.NoPos, init, nil, nil)
			}()
		}
	}
}

// buildFor builds the SSA bodies of fn's package on demand (packages are built lazily).
func (i *interpreter) buildFor(fn *ssa.Function) {
	if fn.Pkg != nil {
		fn.Pkg.Build()
		return
	}
	if o := fn.Object(); o != nil && o.Pkg() != nil {
		if p := i.prog.Package(o.Pkg()); p != nil {
			p.Build()
		}
	}
	if fn.Parent() != nil {
		i.buildFor(fn.Parent())
	}
}

// symRef is the address x[idx] for a symbolic idx when the address is only ever loaded from.
type symRef struct {
	cells []value
	idx   value
	t     types.Type
}

// onlyLoaded reports whether every use of the IndexAddr is a load (*p).
func onlyLoaded(instr *ssa.IndexAddr) bool {
	refs := instr.Referrers()
	if refs == nil || len(*refs) == 0 {
		return false
	}
	for _, r := range *refs {
		u, ok := r.(*ssa.UnOp)
		if !ok || u.Op != token.MUL {
			if _, isDbg := r.(*ssa.DebugRef); isDbg {
				continue
			}
			return false
		}
	}
	return true
}
