package main

// One long-lived SMT solver process (z3 -in by default) driven over a pipe with
// push/pop. Any "(error" line makes the pending answer "error" (inconclusive).

import (
	"bufio"
	"fmt"
	"io"
	"os"
	"os/exec"
	"strconv"
	"strings"
	"time"
)

type scopeRec struct {
	terms []int
	vars  []string
	ufs   []string
}

type Solver struct {
	bin       string
	args      []string
	cmd       *exec.Cmd
	in        io.WriteCloser
	out       *bufio.Reader
	p         *smtPrinter
	scopes    []scopeRec
	buf       strings.Builder
	timeoutMs int
	Queries   int
	Sat       int
	Unsat     int
	Unknown   int
	Errors    int
	Time      time.Duration
	logf      *os.File
	lastErr   string
}

func newSolver(bin string, timeoutMs int, args ...string) (*Solver, error) {
	s := &Solver{bin: bin, args: args, timeoutMs: timeoutMs}
	if err := s.start(); err != nil {
		return nil, err
	}
	return s, nil
}

func (s *Solver) start() error {
	s.cmd = exec.Command(s.bin, s.args...)
	in, err := s.cmd.StdinPipe()
	if err != nil {
		return err
	}
	out, err := s.cmd.StdoutPipe()
	if err != nil {
		return err
	}
	s.cmd.Stderr = os.Stderr
	if err := s.cmd.Start(); err != nil {
		return err
	}
	s.in = in
	s.out = bufio.NewReaderSize(out, 1<<16)
	if p := os.Getenv("GOSX_SOLVER_LOG"); p != "" && s.logf == nil {
		s.logf, _ = os.Create(p)
	}
	s.resetState()
	s.preamble()
	return nil
}

func (s *Solver) resetState() {
	s.p = &smtPrinter{defined: map[int]bool{}, vars: map[string]int{}, ufs: map[string]bool{}, out: &s.buf}
	s.scopes = []scopeRec{{}}
}

func (s *Solver) preamble() {
	if strings.Contains(s.bin, "cvc5") {
		s.send("(set-logic QF_UFBV)\n")
		if s.timeoutMs > 0 {
			s.send(fmt.Sprintf("(set-option :tlimit-per %d)\n", s.timeoutMs))
		}
	} else if s.timeoutMs > 0 {
		s.send(fmt.Sprintf("(set-option :timeout %d)\n", s.timeoutMs))
	}
}

func (s *Solver) send(txt string) {
	if s.logf != nil {
		s.logf.WriteString(txt)
	}
	io.WriteString(s.in, txt)
}

func (s *Solver) close() {
	if s.cmd != nil {
		s.send("(exit)\n")
		s.in.Close()
		done := make(chan struct{})
		go func() { s.cmd.Wait(); close(done) }()
		select {
		case <-done:
		case <-time.After(2 * time.Second):
			s.cmd.Process.Kill()
		}
		s.cmd = nil
	}
}

func (s *Solver) restart() {
	if s.cmd != nil {
		s.cmd.Process.Kill()
		s.cmd.Wait()
	}
	if err := s.start(); err != nil {
		panic("cannot restart solver: " + err.Error())
	}
}

// reset clears all assertions and declarations.
func (s *Solver) reset() {
	s.send("(reset)\n")
	s.resetState()
	s.preamble()
}

func (s *Solver) push() {
	s.send("(push 1)\n")
	s.scopes = append(s.scopes, scopeRec{})
}

func (s *Solver) pop() {
	top := s.scopes[len(s.scopes)-1]
	s.scopes = s.scopes[:len(s.scopes)-1]
	for _, id := range top.terms {
		delete(s.p.defined, id)
	}
	for _, v := range top.vars {
		delete(s.p.vars, v)
	}
	for _, u := range top.ufs {
		delete(s.p.ufs, u)
	}
	s.send("(pop 1)\n")
}

// emit prints definitions for t at the current scope and returns its name.
func (s *Solver) emit(t *Term) string {
	before := len(s.p.defined)
	bv := len(s.p.vars)
	bu := len(s.p.ufs)
	// track new entries: snapshot keys is too slow for big maps; instead wrap maps
	s.buf.Reset()
	tr := &trackPrinter{p: s.p}
	name := tr.emit(t)
	_ = before
	_ = bv
	_ = bu
	top := &s.scopes[len(s.scopes)-1]
	top.terms = append(top.terms, tr.terms...)
	top.vars = append(top.vars, tr.vars...)
	top.ufs = append(top.ufs, tr.ufs...)
	if s.buf.Len() > 0 {
		s.send(s.buf.String())
	}
	return name
}

type trackPrinter struct {
	p     *smtPrinter
	terms []int
	vars  []string
	ufs   []string
}

func (tp *trackPrinter) emit(t *Term) string {
	p := tp.p
	switch t.op {
	case OpConst:
		return constSMT(t)
	case OpVar:
		if _, ok := p.vars[t.name]; !ok {
			p.vars[t.name] = t.w
			tp.vars = append(tp.vars, t.name)
			fmt.Fprintf(p.out, "(declare-const %s %s)\n", smtSym(t.name), sortSMT(t.w))
		}
		return smtSym(t.name)
	}
	if p.defined[t.id] {
		return "t" + strconv.Itoa(t.id)
	}
	names := make([]string, len(t.args))
	for i, a := range t.args {
		names[i] = tp.emit(a)
	}
	var body string
	switch t.op {
	case OpExtract:
		body = fmt.Sprintf("((_ extract %d %d) %s)", t.hi, t.lo, names[0])
	case OpZExt:
		body = fmt.Sprintf("((_ zero_extend %d) %s)", t.w-t.args[0].w, names[0])
	case OpSExt:
		body = fmt.Sprintf("((_ sign_extend %d) %s)", t.w-t.args[0].w, names[0])
	case OpUF:
		if !p.ufs[t.name] {
			p.ufs[t.name] = true
			tp.ufs = append(tp.ufs, t.name)
			sig := ufDecls[t.name]
			var as []string
			for _, w := range sig[:len(sig)-1] {
				as = append(as, sortSMT(w))
			}
			fmt.Fprintf(p.out, "(declare-fun %s (%s) %s)\n", smtSym(t.name), strings.Join(as, " "), sortSMT(sig[len(sig)-1]))
		}
		if len(names) == 0 {
			body = smtSym(t.name)
		} else {
			body = "(" + smtSym(t.name) + " " + strings.Join(names, " ") + ")"
		}
	default:
		body = "(" + opSMT[t.op] + " " + strings.Join(names, " ") + ")"
	}
	p.defined[t.id] = true
	tp.terms = append(tp.terms, t.id)
	fmt.Fprintf(p.out, "(define-fun t%d () %s %s)\n", t.id, sortSMT(t.w), body)
	return "t" + strconv.Itoa(t.id)
}

func (s *Solver) assert(t *Term) {
	if t == tTrue {
		return
	}
	name := s.emit(t)
	s.send("(assert " + name + ")\n")
}

func (s *Solver) readLine() (string, error) {
	line, err := s.out.ReadString('\n')
	return strings.TrimRight(line, "\r\n"), err
}

// check runs (check-sat) and returns "sat", "unsat", "unknown" or "error".
func (s *Solver) check() string {
	t0 := time.Now()
	s.send("(check-sat)\n")
	res := ""
	sawErr := false
	for {
		line, err := s.readLine()
		if err != nil {
			s.lastErr = "solver died: " + err.Error()
			s.Errors++
			s.restartAfterDeath()
			res = "error"
			break
		}
		if line == "sat" || line == "unsat" || line == "unknown" {
			res = line
			break
		}
		if strings.HasPrefix(line, "(error") {
			sawErr = true
			s.lastErr = line
			// multi-line error: read until parens balance
			for depth := parenDepth(line); depth > 0; {
				l2, err := s.readLine()
				if err != nil {
					break
				}
				depth += parenDepth(l2)
			}
			continue
		}
		// other chatter: ignore
	}
	if sawErr {
		res = "error"
	}
	s.Queries++
	s.Time += time.Since(t0)
	switch res {
	case "sat":
		s.Sat++
	case "unsat":
		s.Unsat++
	case "unknown":
		s.Unknown++
	default:
		s.Errors++
	}
	return res
}

func (s *Solver) restartAfterDeath() {
	// the caller's assertion stack is lost; the explorer treats "error" as inconclusive
	// and re-asserts on the next path (which starts with reset()).
	defer func() { recover() }()
	s.cmd.Wait()
	s.start()
}

func parenDepth(l string) int {
	d := 0
	inStr := false
	for i := 0; i < len(l); i++ {
		switch l[i] {
		case '"':
			inStr = !inStr
		case '(':
			if !inStr {
				d++
			}
		case ')':
			if !inStr {
				d--
			}
		}
	}
	return d
}

// checkWith answers whether (current assertions AND t) is satisfiable.
func (s *Solver) checkWith(t *Term) string {
	if t == tFalse {
		return "unsat"
	}
	s.push()
	s.assert(t)
	r := s.check()
	s.pop()
	return r
}

// values returns the model values of the given variables after a "sat" answer.
func (s *Solver) values(vars []*Term) (map[string]uint64, error) {
	res := map[string]uint64{}
	if len(vars) == 0 {
		return res, nil
	}
	const chunk = 200
	for i := 0; i < len(vars); i += chunk {
		j := i + chunk
		if j > len(vars) {
			j = len(vars)
		}
		var sb strings.Builder
		sb.WriteString("(get-value (")
		for _, v := range vars[i:j] {
			if _, ok := s.p.vars[v.name]; !ok {
				// never sent to the solver: unconstrained, pick 0
				res[v.name] = 0
				continue
			}
			sb.WriteString(smtSym(v.name))
			sb.WriteString(" ")
		}
		sb.WriteString("))\n")
		if strings.HasPrefix(sb.String(), "(get-value ())") {
			continue
		}
		s.send(sb.String())
		txt, err := s.readSexp()
		if err != nil {
			return nil, err
		}
		if strings.HasPrefix(txt, "(error") {
			return nil, fmt.Errorf("get-value: %s", txt)
		}
		if err := parseValues(txt, res); err != nil {
			return nil, err
		}
	}
	return res, nil
}

func (s *Solver) readSexp() (string, error) {
	var sb strings.Builder
	depth := 0
	started := false
	for {
		line, err := s.readLine()
		if err != nil {
			return "", err
		}
		if strings.TrimSpace(line) == "" && !started {
			continue
		}
		if !started && (strings.HasPrefix(line, "((error") || strings.HasPrefix(line, "(error")) {
			// z3 4.8.12 prints an unbalanced "((error ...)" for some get-value failures
			return "(error " + line + ")", nil
		}
		started = true
		sb.WriteString(line)
		sb.WriteString(" ")
		depth += parenDepth(line)
		if depth <= 0 {
			return sb.String(), nil
		}
	}
}

// parseValues parses ((|a| #x01) (|b| true) (|c| (_ bv3 5))) into res.
func parseValues(txt string, res map[string]uint64) error {
	toks := tokenizeSexp(txt)
	// expected: ( ( name value ) ( name value ) ... )
	i := 0
	if len(toks) == 0 || toks[0] != "(" {
		return fmt.Errorf("bad get-value reply: %q", txt)
	}
	i++
	for i < len(toks) && toks[i] == "(" {
		i++
		name := toks[i]
		i++
		name = strings.Trim(name, "|")
		var v uint64
		if toks[i] == "(" {
			// (_ bvN w)
			if i+3 < len(toks) && toks[i+1] == "_" && strings.HasPrefix(toks[i+2], "bv") {
				n, err := strconv.ParseUint(toks[i+2][2:], 10, 64)
				if err != nil {
					return err
				}
				v = n
				for toks[i] != ")" {
					i++
				}
				i++
			} else {
				return fmt.Errorf("unsupported value syntax near %v", toks[i:min2(i+6, len(toks))])
			}
		} else {
			tok := toks[i]
			i++
			switch {
			case tok == "true":
				v = 1
			case tok == "false":
				v = 0
			case strings.HasPrefix(tok, "#x"):
				n, err := strconv.ParseUint(tok[2:], 16, 64)
				if err != nil {
					return err
				}
				v = n
			case strings.HasPrefix(tok, "#b"):
				n, err := strconv.ParseUint(tok[2:], 2, 64)
				if err != nil {
					return err
				}
				v = n
			default:
				return fmt.Errorf("unsupported value token %q", tok)
			}
		}
		if toks[i] != ")" {
			return fmt.Errorf("bad pair close near %q", toks[i])
		}
		i++
		res[name] = v
	}
	return nil
}

func min2(a, b int) int {
	if a < b {
		return a
	}
	return b
}

func tokenizeSexp(s string) []string {
	var toks []string
	i := 0
	for i < len(s) {
		c := s[i]
		switch {
		case c == ' ' || c == '\t' || c == '\n' || c == '\r':
			i++
		case c == '(' || c == ')':
			toks = append(toks, string(c))
			i++
		case c == '|':
			j := i + 1
			for j < len(s) && s[j] != '|' {
				j++
			}
			toks = append(toks, s[i:j+1])
			i = j + 1
		default:
			j := i
			for j < len(s) && !strings.ContainsRune(" \t\n\r()", rune(s[j])) {
				j++
			}
			toks = append(toks, s[i:j])
			i = j
		}
	}
	return toks
}

// standalone renders a self-contained SMT-LIB2 script deciding (and asserts).
func standaloneScript(asserts []*Term, comment string) string {
	var sb strings.Builder
	p := &smtPrinter{defined: map[int]bool{}, vars: map[string]int{}, ufs: map[string]bool{}, out: &sb}
	tp := &trackPrinter{p: p}
	fmt.Fprintf(&sb, "; %s\n", strings.ReplaceAll(comment, "\n", " "))
	for _, a := range asserts {
		n := tp.emit(a)
		fmt.Fprintf(&sb, "(assert %s)\n", n)
	}
	sb.WriteString("(check-sat)\n")
	return sb.String()
}
