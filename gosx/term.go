package main

// Hash-consed QF_BV/Bool/UF term DAG with constant folding and an SMT-LIB2 printer.
// Widths are 1..64 bits; w==0 means sort Bool.

import (
	"fmt"
	"sort"
	"strings"
)

type Op uint8

const (
	OpConst Op = iota // bit-vector or bool constant (val)
	OpVar             // named free symbol
	OpAdd
	OpSub
	OpMul
	OpUDiv
	OpSDiv
	OpURem
	OpSRem
	OpAnd
	OpOr
	OpXor
	OpNot // bvnot
	OpNeg
	OpShl
	OpLShr
	OpAShr
	OpConcat
	OpExtract // hi, lo
	OpZExt    // to width w
	OpSExt
	OpIte
	OpEq
	OpUlt
	OpUle
	OpSlt
	OpSle
	OpBAnd // boolean and (n-ary)
	OpBOr
	OpBNot
	OpUF // uninterpreted function name(args...) -> BV w
)

var opSMT = map[Op]string{
	OpAdd: "bvadd", OpSub: "bvsub", OpMul: "bvmul", OpUDiv: "bvudiv", OpSDiv: "bvsdiv",
	OpURem: "bvurem", OpSRem: "bvsrem", OpAnd: "bvand", OpOr: "bvor", OpXor: "bvxor",
	OpNot: "bvnot", OpNeg: "bvneg", OpShl: "bvshl", OpLShr: "bvlshr", OpAShr: "bvashr",
	OpConcat: "concat", OpIte: "ite", OpEq: "=", OpUlt: "bvult", OpUle: "bvule",
	OpSlt: "bvslt", OpSle: "bvsle", OpBAnd: "and", OpBOr: "or", OpBNot: "not",
}

type Term struct {
	op     Op
	w      int // 0 = Bool
	args   []*Term
	val    uint64
	name   string
	hi, lo int
	id     int
}

var (
	termTable = map[string]*Term{}
	termCount int
	// ufDecls records uninterpreted function signatures: name -> (arg widths, result width)
	ufDecls = map[string][]int{}
)

func mask(w int) uint64 {
	if w >= 64 {
		return ^uint64(0)
	}
	return (uint64(1) << uint(w)) - 1
}

func intern(t *Term) *Term {
	var sb strings.Builder
	fmt.Fprintf(&sb, "%d|%d|%d|%s|%d|%d", t.op, t.w, t.val, t.name, t.hi, t.lo)
	for _, a := range t.args {
		fmt.Fprintf(&sb, "|%d", a.id)
	}
	k := sb.String()
	if e, ok := termTable[k]; ok {
		return e
	}
	termCount++
	t.id = termCount
	termTable[k] = t
	return t
}

func (t *Term) isConst() bool { return t.op == OpConst }
func (t *Term) isBool() bool  { return t.w == 0 }

func mkConst(w int, v uint64) *Term {
	if w == 0 {
		panic("mkConst with w=0")
	}
	return intern(&Term{op: OpConst, w: w, val: v & mask(w)})
}

func mkBool(b bool) *Term {
	v := uint64(0)
	if b {
		v = 1
	}
	return intern(&Term{op: OpConst, w: 0, val: v})
}

var (
	tTrue  = mkBool(true)
	tFalse = mkBool(false)
)

func mkVar(name string, w int) *Term {
	return intern(&Term{op: OpVar, w: w, name: name})
}

func signExt(v uint64, w int) int64 {
	if w >= 64 {
		return int64(v)
	}
	sh := uint(64 - w)
	return int64(v<<sh) >> sh
}

func mkBin(op Op, a, b *Term) *Term {
	if a.w != b.w {
		panic(fmt.Sprintf("mkBin %v: width mismatch %d vs %d (%s, %s)", opSMT[op], a.w, b.w, a, b))
	}
	w := a.w
	if a.isConst() && b.isConst() {
		x, y := a.val, b.val
		switch op {
		case OpAdd:
			return mkConst(w, x+y)
		case OpSub:
			return mkConst(w, x-y)
		case OpMul:
			return mkConst(w, x*y)
		case OpUDiv:
			if y == 0 {
				return mkConst(w, mask(w))
			}
			return mkConst(w, x/y)
		case OpURem:
			if y == 0 {
				return mkConst(w, x)
			}
			return mkConst(w, x%y)
		case OpSDiv:
			if y != 0 {
				sx, sy := signExt(x, w), signExt(y, w)
				if sy == -1 {
					return mkConst(w, uint64(-sx)) // wraps for MIN
				}
				return mkConst(w, uint64(sx/sy))
			}
		case OpSRem:
			if y != 0 {
				sx, sy := signExt(x, w), signExt(y, w)
				if sy == -1 {
					return mkConst(w, 0)
				}
				return mkConst(w, uint64(sx%sy))
			}
		case OpAnd:
			return mkConst(w, x&y)
		case OpOr:
			return mkConst(w, x|y)
		case OpXor:
			return mkConst(w, x^y)
		case OpShl:
			if y >= uint64(w) {
				return mkConst(w, 0)
			}
			return mkConst(w, x<<y)
		case OpLShr:
			if y >= uint64(w) {
				return mkConst(w, 0)
			}
			return mkConst(w, x>>y)
		case OpAShr:
			sx := signExt(x, w)
			if y >= uint64(w) {
				y = uint64(w - 1)
			}
			return mkConst(w, uint64(sx>>y))
		}
	}
	// light identities
	switch op {
	case OpAdd:
		if a.isConst() && a.val == 0 {
			return b
		}
		if b.isConst() && b.val == 0 {
			return a
		}
	case OpSub:
		if b.isConst() && b.val == 0 {
			return a
		}
		if a == b {
			return mkConst(w, 0)
		}
	case OpMul:
		if a.isConst() && a.val == 1 {
			return b
		}
		if b.isConst() && b.val == 1 {
			return a
		}
		if (a.isConst() && a.val == 0) || (b.isConst() && b.val == 0) {
			return mkConst(w, 0)
		}
	case OpAnd:
		if a == b {
			return a
		}
		if a.isConst() {
			a, b = b, a
		}
		if b.isConst() {
			if b.val == 0 {
				return b
			}
			if b.val == mask(w) {
				return a
			}
		}
	case OpOr:
		if a == b {
			return a
		}
		if a.isConst() {
			a, b = b, a
		}
		if b.isConst() {
			if b.val == 0 {
				return a
			}
			if b.val == mask(w) {
				return b
			}
		}
		// zext(x8)<<k | zext(y8)<<j patterns are left to the solver
	case OpXor:
		if a == b {
			return mkConst(w, 0)
		}
		if a.isConst() && a.val == 0 {
			return b
		}
		if b.isConst() && b.val == 0 {
			return a
		}
	case OpShl, OpLShr, OpAShr:
		if b.isConst() && b.val == 0 {
			return a
		}
		if a.isConst() && a.val == 0 {
			return a
		}
	}
	return intern(&Term{op: op, w: w, args: []*Term{a, b}})
}

func mkNot(a *Term) *Term {
	if a.isConst() {
		return mkConst(a.w, ^a.val)
	}
	if a.op == OpNot {
		return a.args[0]
	}
	return intern(&Term{op: OpNot, w: a.w, args: []*Term{a}})
}

func mkNeg(a *Term) *Term {
	if a.isConst() {
		return mkConst(a.w, -a.val)
	}
	return intern(&Term{op: OpNeg, w: a.w, args: []*Term{a}})
}

func mkExtract(a *Term, hi, lo int) *Term {
	if hi < lo || hi >= a.w {
		panic(fmt.Sprintf("mkExtract bad range [%d:%d] of w=%d", hi, lo, a.w))
	}
	w := hi - lo + 1
	if w == a.w {
		return a
	}
	if a.isConst() {
		return mkConst(w, a.val>>uint(lo))
	}
	switch a.op {
	case OpZExt:
		in := a.args[0]
		if hi < in.w {
			return mkExtract(in, hi, lo)
		}
		if lo >= in.w {
			return mkConst(w, 0)
		}
	case OpSExt:
		in := a.args[0]
		if hi < in.w {
			return mkExtract(in, hi, lo)
		}
	case OpExtract:
		return mkExtract(a.args[0], hi+a.lo, lo+a.lo)
	case OpConcat:
		lowPart := a.args[1]
		if hi < lowPart.w {
			return mkExtract(lowPart, hi, lo)
		}
		if lo >= lowPart.w {
			return mkExtract(a.args[0], hi-lowPart.w, lo-lowPart.w)
		}
	case OpOr, OpAnd, OpXor:
		// distribute extract over bitwise ops when it simplifies (common: byte(v>>k) of or-of-shifts)
		if w <= 8 {
			x := mkExtract(a.args[0], hi, lo)
			y := mkExtract(a.args[1], hi, lo)
			return mkBin(a.op, x, y)
		}
	case OpShl:
		if a.args[1].isConst() {
			k := int(a.args[1].val)
			if k < a.w {
				if lo >= k {
					return mkExtract(a.args[0], hi-k, lo-k)
				}
				if hi < k {
					return mkConst(w, 0)
				}
			} else {
				return mkConst(w, 0)
			}
		}
	case OpLShr:
		if a.args[1].isConst() {
			k := int(a.args[1].val)
			if k < a.w && hi+k < a.w {
				return mkExtract(a.args[0], hi+k, lo+k)
			}
			if k >= a.w || lo+k >= a.w {
				return mkConst(w, 0)
			}
		}
	}
	return intern(&Term{op: OpExtract, w: w, args: []*Term{a}, hi: hi, lo: lo})
}

func mkZExt(a *Term, w int) *Term {
	if w == a.w {
		return a
	}
	if w < a.w {
		return mkExtract(a, w-1, 0)
	}
	if a.isConst() {
		return mkConst(w, a.val)
	}
	if a.op == OpZExt {
		return mkZExt(a.args[0], w)
	}
	return intern(&Term{op: OpZExt, w: w, args: []*Term{a}})
}

func mkSExt(a *Term, w int) *Term {
	if w == a.w {
		return a
	}
	if w < a.w {
		return mkExtract(a, w-1, 0)
	}
	if a.isConst() {
		return mkConst(w, uint64(signExt(a.val, a.w)))
	}
	if a.op == OpZExt {
		// sign bit is zero
		return mkZExt(a.args[0], w)
	}
	return intern(&Term{op: OpSExt, w: w, args: []*Term{a}})
}

func mkConcat(hi, lo *Term) *Term {
	w := hi.w + lo.w
	if w > 64 {
		panic("concat wider than 64")
	}
	if hi.isConst() && lo.isConst() {
		return mkConst(w, hi.val<<uint(lo.w)|lo.val)
	}
	return intern(&Term{op: OpConcat, w: w, args: []*Term{hi, lo}})
}

func mkIte(c, a, b *Term) *Term {
	if !c.isBool() {
		panic("ite cond not bool")
	}
	if a.w != b.w {
		panic("ite width mismatch")
	}
	if c.isConst() {
		if c.val != 0 {
			return a
		}
		return b
	}
	if a == b {
		return a
	}
	if a.isBool() {
		if a == tTrue && b == tFalse {
			return c
		}
		if a == tFalse && b == tTrue {
			return mkBNot(c)
		}
	}
	return intern(&Term{op: OpIte, w: a.w, args: []*Term{c, a, b}})
}

func mkEq(a, b *Term) *Term {
	if a.w != b.w {
		panic(fmt.Sprintf("mkEq width mismatch %d %d", a.w, b.w))
	}
	if a == b {
		return tTrue
	}
	if a.isConst() && b.isConst() {
		return mkBool(a.val == b.val)
	}
	if a.isBool() {
		if a.isConst() {
			a, b = b, a
		}
		if b.isConst() {
			if b.val != 0 {
				return a
			}
			return mkBNot(a)
		}
	}
	if a.isConst() {
		a, b = b, a
	}
	// zext(x) == const: compare at the narrow width
	if b.isConst() && a.op == OpZExt {
		in := a.args[0]
		if b.val>>uint(in.w) != 0 && in.w < 64 {
			return tFalse
		}
		return mkEq(in, mkConst(in.w, b.val))
	}
	if b.isConst() && a.op == OpIte && a.args[1].isConst() && a.args[2].isConst() {
		// ite(c, k1, k2) == k
		t1 := a.args[1].val == b.val
		t2 := a.args[2].val == b.val
		switch {
		case t1 && t2:
			return tTrue
		case t1:
			return a.args[0]
		case t2:
			return mkBNot(a.args[0])
		default:
			return tFalse
		}
	}
	if a.id > b.id && !b.isConst() {
		a, b = b, a
	}
	return intern(&Term{op: OpEq, w: 0, args: []*Term{a, b}})
}

func mkCmp(op Op, a, b *Term) *Term {
	if a.w != b.w {
		panic(fmt.Sprintf("mkCmp width mismatch %d %d", a.w, b.w))
	}
	if a.isConst() && b.isConst() {
		switch op {
		case OpUlt:
			return mkBool(a.val < b.val)
		case OpUle:
			return mkBool(a.val <= b.val)
		case OpSlt:
			return mkBool(signExt(a.val, a.w) < signExt(b.val, b.w))
		case OpSle:
			return mkBool(signExt(a.val, a.w) <= signExt(b.val, b.w))
		}
	}
	if a == b {
		return mkBool(op == OpUle || op == OpSle)
	}
	switch op {
	case OpUlt:
		if b.isConst() && b.val == 0 {
			return tFalse
		}
	case OpUle:
		if a.isConst() && a.val == 0 {
			return tTrue
		}
		if b.isConst() && b.val == mask(b.w) {
			return tTrue
		}
	}
	// zext comparisons against constants / other zexts of same inner width
	if a.op == OpZExt && b.isConst() && (op == OpUlt || op == OpUle || ((op == OpSlt || op == OpSle) && a.w > a.args[0].w && signExt(b.val, b.w) >= 0)) {
		in := a.args[0]
		if in.w < 64 && b.val>>uint(in.w) != 0 {
			return tTrue
		}
		uop := OpUlt
		if op == OpUle || op == OpSle {
			uop = OpUle
		}
		return mkCmp(uop, in, mkConst(in.w, b.val))
	}
	return intern(&Term{op: op, w: 0, args: []*Term{a, b}})
}

func mkBNot(a *Term) *Term {
	if !a.isBool() {
		panic("mkBNot on non-bool")
	}
	if a.isConst() {
		return mkBool(a.val == 0)
	}
	if a.op == OpBNot {
		return a.args[0]
	}
	return intern(&Term{op: OpBNot, w: 0, args: []*Term{a}})
}

func mkBAnd(ts ...*Term) *Term {
	var out []*Term
	seen := map[int]bool{}
	for _, t := range ts {
		if !t.isBool() {
			panic("mkBAnd on non-bool")
		}
		if t.isConst() {
			if t.val == 0 {
				return tFalse
			}
			continue
		}
		if t.op == OpBAnd {
			for _, a := range t.args {
				if !seen[a.id] {
					seen[a.id] = true
					out = append(out, a)
				}
			}
			continue
		}
		if !seen[t.id] {
			seen[t.id] = true
			out = append(out, t)
		}
	}
	for _, t := range out {
		if t.op == OpBNot && seen[t.args[0].id] {
			return tFalse
		}
	}
	switch len(out) {
	case 0:
		return tTrue
	case 1:
		return out[0]
	}
	return intern(&Term{op: OpBAnd, w: 0, args: out})
}

func mkBOr(ts ...*Term) *Term {
	var out []*Term
	seen := map[int]bool{}
	for _, t := range ts {
		if !t.isBool() {
			panic("mkBOr on non-bool")
		}
		if t.isConst() {
			if t.val != 0 {
				return tTrue
			}
			continue
		}
		if t.op == OpBOr {
			for _, a := range t.args {
				if !seen[a.id] {
					seen[a.id] = true
					out = append(out, a)
				}
			}
			continue
		}
		if !seen[t.id] {
			seen[t.id] = true
			out = append(out, t)
		}
	}
	for _, t := range out {
		if t.op == OpBNot && seen[t.args[0].id] {
			return tTrue
		}
	}
	switch len(out) {
	case 0:
		return tFalse
	case 1:
		return out[0]
	}
	return intern(&Term{op: OpBOr, w: 0, args: out})
}

func mkUF(name string, w int, args ...*Term) *Term {
	sig := make([]int, 0, len(args)+1)
	for _, a := range args {
		sig = append(sig, a.w)
	}
	sig = append(sig, w)
	if old, ok := ufDecls[name]; ok {
		if fmt.Sprint(old) != fmt.Sprint(sig) {
			panic(fmt.Sprintf("UF %s used with two signatures %v / %v", name, old, sig))
		}
	} else {
		ufDecls[name] = sig
	}
	return intern(&Term{op: OpUF, w: w, name: name, args: args})
}

// ---------------------------------------------------------------------
// printing

func sortSMT(w int) string {
	if w == 0 {
		return "Bool"
	}
	return fmt.Sprintf("(_ BitVec %d)", w)
}

func smtSym(name string) string {
	return "|" + strings.NewReplacer("|", "_", "\\", "_").Replace(name) + "|"
}

// smtPrinter prints DAGs using let-free named definitions to keep output linear:
// every shared non-leaf term is emitted once as (define-fun tN () sort body).
type smtPrinter struct {
	defined map[int]bool // term ids already defined in the solver context
	vars    map[string]int
	ufs     map[string]bool
	out     *strings.Builder
}

func (t *Term) String() string {
	var sb strings.Builder
	t.write(&sb, 0)
	return sb.String()
}

func (t *Term) write(sb *strings.Builder, depth int) {
	if depth > 40 {
		sb.WriteString("...")
		return
	}
	switch t.op {
	case OpConst:
		if t.w == 0 {
			if t.val != 0 {
				sb.WriteString("true")
			} else {
				sb.WriteString("false")
			}
			return
		}
		sb.WriteString(constSMT(t))
	case OpVar:
		sb.WriteString(t.name)
	default:
		sb.WriteString("(")
		if t.op == OpExtract {
			fmt.Fprintf(sb, "extract[%d:%d]", t.hi, t.lo)
		} else if t.op == OpZExt {
			fmt.Fprintf(sb, "zext%d", t.w)
		} else if t.op == OpSExt {
			fmt.Fprintf(sb, "sext%d", t.w)
		} else if t.op == OpUF {
			sb.WriteString(t.name)
		} else {
			sb.WriteString(opSMT[t.op])
		}
		for _, a := range t.args {
			sb.WriteString(" ")
			a.write(sb, depth+1)
		}
		sb.WriteString(")")
	}
}

func constSMT(t *Term) string {
	if t.w == 0 {
		if t.val != 0 {
			return "true"
		}
		return "false"
	}
	if t.w%4 == 0 {
		return fmt.Sprintf("#x%0*x", t.w/4, t.val)
	}
	return fmt.Sprintf("(_ bv%d %d)", t.val, t.w)
}

// freeVars returns the names of the variables occurring in t (sorted).
func freeVars(ts ...*Term) []*Term {
	seen := map[int]bool{}
	var out []*Term
	var walk func(t *Term)
	walk = func(t *Term) {
		if seen[t.id] {
			return
		}
		seen[t.id] = true
		if t.op == OpVar {
			out = append(out, t)
		}
		for _, a := range t.args {
			walk(a)
		}
	}
	for _, t := range ts {
		walk(t)
	}
	sort.Slice(out, func(i, j int) bool { return out[i].name < out[j].name })
	return out
}

// evalTerm evaluates t under a full assignment of its variables (used to validate models
// and in concrete-mode translator validation). UFs are not supported (returns ok=false).
func evalTerm(t *Term, env map[string]uint64, memo map[int]uint64) (uint64, bool) {
	if v, ok := memo[t.id]; ok {
		return v, true
	}
	var r uint64
	switch t.op {
	case OpConst:
		r = t.val
	case OpVar:
		v, ok := env[t.name]
		if !ok {
			return 0, false
		}
		r = v & mask1(t.w)
	case OpUF:
		return 0, false
	default:
		vals := make([]uint64, len(t.args))
		for i, a := range t.args {
			v, ok := evalTerm(a, env, memo)
			if !ok {
				return 0, false
			}
			vals[i] = v
		}
		cs := make([]*Term, len(vals))
		for i, v := range vals {
			if t.args[i].w == 0 {
				cs[i] = mkBool(v != 0)
			} else {
				cs[i] = mkConst(t.args[i].w, v)
			}
		}
		var c *Term
		switch t.op {
		case OpNot:
			c = mkNot(cs[0])
		case OpNeg:
			c = mkNeg(cs[0])
		case OpExtract:
			c = mkExtract(cs[0], t.hi, t.lo)
		case OpZExt:
			c = mkZExt(cs[0], t.w)
		case OpSExt:
			c = mkSExt(cs[0], t.w)
		case OpConcat:
			c = mkConcat(cs[0], cs[1])
		case OpIte:
			c = mkIte(cs[0], cs[1], cs[2])
		case OpEq:
			c = mkEq(cs[0], cs[1])
		case OpUlt, OpUle, OpSlt, OpSle:
			c = mkCmp(t.op, cs[0], cs[1])
		case OpBAnd:
			c = mkBAnd(cs...)
		case OpBOr:
			c = mkBOr(cs...)
		case OpBNot:
			c = mkBNot(cs[0])
		default:
			if t.op == OpUDiv || t.op == OpSDiv || t.op == OpURem || t.op == OpSRem {
				if cs[1].val == 0 {
					return 0, false
				}
			}
			c = mkBin(t.op, cs[0], cs[1])
		}
		if !c.isConst() {
			return 0, false
		}
		r = c.val
	}
	memo[t.id] = r
	return r, true
}

func mask1(w int) uint64 {
	if w == 0 {
		return 1
	}
	return mask(w)
}
