package main

// Emulated reflection (the part of package reflect that gohcl, gocty and fatih/structs-free
// code paths use). The real reflect package works on runtime type descriptors and unsafe
// pointers, which do not exist in this interpreter; instead every exported entry point used
// by the code under analysis is an intrinsic over the interpreter's own values and go/types:
//
//	reflect.Type   = iface{*reflect.rtype, rtype{T}}        (T canonicalised, so == works)
//	reflect.Value  = structure{rtype{T}, *rbox, uintptr(1)}  (the three slots of the real struct)
//
// An rbox holds the value and, for addressable values, the cell it lives in; reads go through
// the cell so that aliases observe Set. Unsupported entry points abandon the path.

import (
	"fmt"
	"go/types"
	"reflect"
	"strings"

	"golang.org/x/tools/go/ssa"
)

type rtype struct{ t types.Type }

type rbox struct {
	v    value
	addr *value // non-nil: addressable (the cell that holds the value)
}

var canonTypes = map[string]types.Type{}

func canonType(t types.Type) types.Type {
	if t == nil {
		return nil
	}
	k := types.TypeString(t, func(p *types.Package) string { return p.Path() })
	if c, ok := canonTypes[k]; ok {
		return c
	}
	canonTypes[k] = t
	return t
}

func (i *interpreter) rtypePtrType() types.Type {
	if i.reflectRtypePtr != nil {
		return i.reflectRtypePtr
	}
	pkg := i.prog.ImportedPackage("reflect")
	if pkg == nil {
		abandon("reflect package not loaded")
	}
	i.reflectRtypePtr = types.NewPointer(pkg.Type("rtype").Type())
	return i.reflectRtypePtr
}

func (i *interpreter) mkType(t types.Type) value {
	if t == nil {
		return iface{}
	}
	return iface{t: i.rtypePtrType(), v: rtype{canonType(t)}}
}

func typeOfRT(v value) types.Type {
	switch x := v.(type) {
	case rtype:
		return x.t
	case iface:
		if x.t == nil {
			abandon("reflect: method call on a nil reflect.Type")
		}
		return typeOfRT(x.v)
	}
	abandon("reflect: unexpected Type representation %T", v)
	return nil
}

func mkValue(t types.Type, v value, addr *value) value {
	return structure{rtype{canonType(t)}, &rbox{v: v, addr: addr}, uintptr(1)}
}

// rv unpacks a reflect.Value; ok is false for the zero Value.
func rv(v value) (types.Type, *rbox, bool) {
	s, isS := v.(structure)
	if !isS || len(s) != 3 {
		abandon("reflect: unexpected Value representation %T", v)
	}
	rt, isT := s[0].(rtype)
	if !isT {
		return nil, nil, false
	}
	b, _ := s[1].(*rbox)
	if b == nil {
		return nil, nil, false
	}
	return rt.t, b, true
}

func (b *rbox) cur(t types.Type) value {
	if b.addr != nil {
		return load(t, b.addr)
	}
	return b.v
}

func reflectKindOf(t types.Type) reflect.Kind {
	switch t := t.(type) {
	case *types.Named, *types.Alias:
		return reflectKindOf(t.Underlying())
	case *types.Basic:
		switch t.Kind() {
		case types.Bool, types.UntypedBool:
			return reflect.Bool
		case types.Int, types.UntypedInt:
			return reflect.Int
		case types.Int8:
			return reflect.Int8
		case types.Int16:
			return reflect.Int16
		case types.Int32, types.UntypedRune:
			return reflect.Int32
		case types.Int64:
			return reflect.Int64
		case types.Uint:
			return reflect.Uint
		case types.Uint8:
			return reflect.Uint8
		case types.Uint16:
			return reflect.Uint16
		case types.Uint32:
			return reflect.Uint32
		case types.Uint64:
			return reflect.Uint64
		case types.Uintptr:
			return reflect.Uintptr
		case types.Float32:
			return reflect.Float32
		case types.Float64, types.UntypedFloat:
			return reflect.Float64
		case types.Complex64:
			return reflect.Complex64
		case types.Complex128:
			return reflect.Complex128
		case types.String, types.UntypedString:
			return reflect.String
		case types.UnsafePointer:
			return reflect.UnsafePointer
		}
	case *types.Array:
		return reflect.Array
	case *types.Chan:
		return reflect.Chan
	case *types.Signature:
		return reflect.Func
	case *types.Interface:
		return reflect.Interface
	case *types.Map:
		return reflect.Map
	case *types.Pointer:
		return reflect.Ptr
	case *types.Slice:
		return reflect.Slice
	case *types.Struct:
		return reflect.Struct
	}
	abandon("reflect: kind of %v", t)
	return reflect.Invalid
}

func isNilValue(v value) bool {
	switch x := v.(type) {
	case nil:
		return true
	case *value:
		return x == nil
	case []value:
		return x == nil
	case *omap:
		return x == nil
	case iface:
		return x.t == nil
	case *closure:
		return x == nil
	case *ssa.Function:
		return x == nil
	}
	return false
}

func shortTypeString(t types.Type) string {
	return types.TypeString(t, func(p *types.Package) string { return p.Name() })
}

func (i *interpreter) registerReflect() {
	in := i.intrinsics
	kindV := func(k reflect.Kind) value { return uint(k) }

	// ---- package functions
	in["reflect.TypeOf"] = func(fr *frame, args []value) value {
		x := args[0].(iface)
		if x.t == nil {
			return iface{}
		}
		return fr.i.mkType(x.t)
	}
	in["reflect.ValueOf"] = func(fr *frame, args []value) value {
		x := args[0].(iface)
		if x.t == nil {
			return zero(fr.fn.Signature.Results().At(0).Type())
		}
		return mkValue(x.t, x.v, nil)
	}
	in["reflect.New"] = func(fr *frame, args []value) value {
		t := typeOfRT(args[0])
		p := new(value)
		*p = zero(t)
		return mkValue(types.NewPointer(t), p, nil)
	}
	in["reflect.Zero"] = func(fr *frame, args []value) value {
		t := typeOfRT(args[0])
		return mkValue(t, zero(t), nil)
	}
	in["reflect.PtrTo"] = func(fr *frame, args []value) value { return fr.i.mkType(types.NewPointer(typeOfRT(args[0]))) }
	in["reflect.PointerTo"] = in["reflect.PtrTo"]
	in["reflect.SliceOf"] = func(fr *frame, args []value) value { return fr.i.mkType(types.NewSlice(typeOfRT(args[0]))) }
	in["reflect.MapOf"] = func(fr *frame, args []value) value {
		return fr.i.mkType(types.NewMap(typeOfRT(args[0]), typeOfRT(args[1])))
	}
	in["reflect.MakeSlice"] = func(fr *frame, args []value) value {
		t := typeOfRT(args[0])
		n, c := goInt(fr, args[1]), goInt(fr, args[2])
		st, ok := t.Underlying().(*types.Slice)
		if !ok {
			fr.i.rtPanic(fr, "reflect.MakeSlice of non-slice type")
		}
		s := make([]value, n, c)
		for k := range s {
			s[k] = zero(st.Elem())
		}
		return mkValue(t, s, nil)
	}
	in["reflect.MakeMap"] = func(fr *frame, args []value) value {
		t := typeOfRT(args[0])
		mt, ok := t.Underlying().(*types.Map)
		if !ok {
			fr.i.rtPanic(fr, "reflect.MakeMap of non-map type")
		}
		return mkValue(t, makeMap(mt.Key()), nil)
	}
	in["reflect.Append"] = func(fr *frame, args []value) value {
		t, b, ok := rv(args[0])
		if !ok {
			fr.i.rtPanic(fr, "reflect.Append of zero Value")
		}
		s, _ := b.cur(t).([]value)
		out := append([]value(nil), s...)
		for _, x := range args[1].([]value) {
			xt, xb, xok := rv(x)
			if !xok {
				fr.i.rtPanic(fr, "reflect.Append: zero Value element")
			}
			out = append(out, copyValue(xb.cur(xt)))
		}
		return mkValue(t, out, nil)
	}
	in["reflect.Indirect"] = func(fr *frame, args []value) value {
		t, b, ok := rv(args[0])
		if !ok {
			return args[0]
		}
		pt, isPtr := t.Underlying().(*types.Pointer)
		if !isPtr {
			return args[0]
		}
		p, _ := b.cur(t).(*value)
		if p == nil {
			return zero(fr.fn.Signature.Results().At(0).Type())
		}
		return mkValue(pt.Elem(), load(pt.Elem(), p), p)
	}

	// ---- Type methods (receiver *reflect.rtype, carried as rtype)
	tm := func(name string, f func(fr *frame, t types.Type, args []value) value) {
		in["(*reflect.rtype)."+name] = func(fr *frame, args []value) value { return f(fr, typeOfRT(args[0]), args) }
	}
	tm("Kind", func(fr *frame, t types.Type, _ []value) value { return kindV(reflectKindOf(t)) })
	tm("Elem", func(fr *frame, t types.Type, _ []value) value {
		switch u := t.Underlying().(type) {
		case *types.Pointer:
			return fr.i.mkType(u.Elem())
		case *types.Slice:
			return fr.i.mkType(u.Elem())
		case *types.Array:
			return fr.i.mkType(u.Elem())
		case *types.Map:
			return fr.i.mkType(u.Elem())
		case *types.Chan:
			return fr.i.mkType(u.Elem())
		}
		fr.i.rtPanic(fr, "reflect: Elem of invalid type "+shortTypeString(t))
		return nil
	})
	tm("Key", func(fr *frame, t types.Type, _ []value) value {
		if u, ok := t.Underlying().(*types.Map); ok {
			return fr.i.mkType(u.Key())
		}
		fr.i.rtPanic(fr, "reflect: Key of non-map type "+shortTypeString(t))
		return nil
	})
	tm("Len", func(fr *frame, t types.Type, _ []value) value {
		if u, ok := t.Underlying().(*types.Array); ok {
			return int(u.Len())
		}
		fr.i.rtPanic(fr, "reflect: Len of non-array type "+shortTypeString(t))
		return nil
	})
	tm("NumField", func(fr *frame, t types.Type, _ []value) value {
		st, ok := t.Underlying().(*types.Struct)
		if !ok {
			fr.i.rtPanic(fr, "reflect: NumField of non-struct type "+shortTypeString(t))
		}
		return st.NumFields()
	})
	tm("Field", func(fr *frame, t types.Type, args []value) value {
		st, ok := t.Underlying().(*types.Struct)
		if !ok {
			fr.i.rtPanic(fr, "reflect: Field of non-struct type "+shortTypeString(t))
		}
		k := goInt(fr, args[1])
		if k < 0 || k >= st.NumFields() {
			fr.i.rtPanic(fr, "reflect: Field index out of bounds")
		}
		f := st.Field(k)
		pkgPath := ""
		if !f.Exported() && f.Pkg() != nil {
			pkgPath = f.Pkg().Path()
		}
		// reflect.StructField{Name, PkgPath, Type, Tag, Offset, Index, Anonymous}
		return structure{f.Name(), pkgPath, fr.i.mkType(f.Type()), st.Tag(k), uintptr(0), []value{k}, f.Anonymous()}
	})
	tm("String", func(fr *frame, t types.Type, _ []value) value { return shortTypeString(t) })
	tm("Name", func(fr *frame, t types.Type, _ []value) value {
		switch x := t.(type) {
		case *types.Named:
			return x.Obj().Name()
		case *types.Basic:
			return x.Name()
		}
		return ""
	})
	tm("PkgPath", func(fr *frame, t types.Type, _ []value) value {
		if x, ok := t.(*types.Named); ok && x.Obj().Pkg() != nil {
			return x.Obj().Pkg().Path()
		}
		return ""
	})
	tm("AssignableTo", func(fr *frame, t types.Type, args []value) value { return types.AssignableTo(t, typeOfRT(args[1])) })
	tm("ConvertibleTo", func(fr *frame, t types.Type, args []value) value { return types.ConvertibleTo(t, typeOfRT(args[1])) })
	tm("Implements", func(fr *frame, t types.Type, args []value) value {
		u, ok := typeOfRT(args[1]).Underlying().(*types.Interface)
		if !ok {
			fr.i.rtPanic(fr, "reflect: non-interface type passed to Type.Implements")
		}
		return types.Implements(t, u)
	})
	tm("Comparable", func(fr *frame, t types.Type, _ []value) value { return types.Comparable(t) })
	tm("Bits", func(fr *frame, t types.Type, _ []value) value {
		b, ok := t.Underlying().(*types.Basic)
		if !ok {
			fr.i.rtPanic(fr, "reflect: Bits of non-arithmetic type")
		}
		switch b.Kind() {
		case types.Int8, types.Uint8:
			return 8
		case types.Int16, types.Uint16:
			return 16
		case types.Int32, types.Uint32, types.Float32:
			return 32
		case types.Complex128:
			return 128
		}
		return 64
	})

	// ---- Value methods
	vm := func(name string, f func(fr *frame, t types.Type, b *rbox, args []value) value) {
		in["(reflect.Value)."+name] = func(fr *frame, args []value) value {
			t, b, ok := rv(args[0])
			if !ok {
				fr.i.rtPanic(fr, "reflect: call of reflect.Value."+name+" on zero Value")
			}
			return f(fr, t, b, args)
		}
	}
	in["(reflect.Value).IsValid"] = func(fr *frame, args []value) value {
		_, _, ok := rv(args[0])
		return ok
	}
	in["(reflect.Value).Kind"] = func(fr *frame, args []value) value {
		t, _, ok := rv(args[0])
		if !ok {
			return kindV(reflect.Invalid)
		}
		return kindV(reflectKindOf(t))
	}
	vm("Type", func(fr *frame, t types.Type, b *rbox, _ []value) value { return fr.i.mkType(t) })
	vm("CanAddr", func(fr *frame, t types.Type, b *rbox, _ []value) value { return b.addr != nil })
	vm("CanSet", func(fr *frame, t types.Type, b *rbox, _ []value) value { return b.addr != nil })
	vm("CanInterface", func(fr *frame, t types.Type, b *rbox, _ []value) value { return true })
	vm("Interface", func(fr *frame, t types.Type, b *rbox, _ []value) value {
		v := b.cur(t)
		if _, isI := t.Underlying().(*types.Interface); isI {
			return v // already an interface value
		}
		return iface{t: t, v: copyValue(v)}
	})
	vm("IsNil", func(fr *frame, t types.Type, b *rbox, _ []value) value {
		switch t.Underlying().(type) {
		case *types.Pointer, *types.Slice, *types.Map, *types.Interface, *types.Signature, *types.Chan:
			return isNilValue(b.cur(t))
		}
		fr.i.rtPanic(fr, "reflect: call of reflect.Value.IsNil on "+reflectKindOf(t).String()+" Value")
		return nil
	})
	vm("IsZero", func(fr *frame, t types.Type, b *rbox, _ []value) value {
		return equalsValue(fr, t, b.cur(t), zero(t))
	})
	vm("Elem", func(fr *frame, t types.Type, b *rbox, _ []value) value {
		switch u := t.Underlying().(type) {
		case *types.Pointer:
			p, _ := b.cur(t).(*value)
			if p == nil {
				return zero(fr.fn.Signature.Results().At(0).Type())
			}
			return mkValue(u.Elem(), load(u.Elem(), p), p)
		case *types.Interface:
			x := b.cur(t).(iface)
			if x.t == nil {
				return zero(fr.fn.Signature.Results().At(0).Type())
			}
			return mkValue(x.t, x.v, nil)
		}
		fr.i.rtPanic(fr, "reflect: call of reflect.Value.Elem on "+reflectKindOf(t).String()+" Value")
		return nil
	})
	vm("Addr", func(fr *frame, t types.Type, b *rbox, _ []value) value {
		if b.addr == nil {
			fr.i.rtPanic(fr, "reflect.Value.Addr of unaddressable value")
		}
		return mkValue(types.NewPointer(t), b.addr, nil)
	})
	vm("NumField", func(fr *frame, t types.Type, b *rbox, _ []value) value {
		st, ok := t.Underlying().(*types.Struct)
		if !ok {
			fr.i.rtPanic(fr, "reflect: call of reflect.Value.NumField on "+reflectKindOf(t).String()+" Value")
		}
		return st.NumFields()
	})
	vm("Field", func(fr *frame, t types.Type, b *rbox, args []value) value {
		st, ok := t.Underlying().(*types.Struct)
		if !ok {
			fr.i.rtPanic(fr, "reflect: call of reflect.Value.Field on "+reflectKindOf(t).String()+" Value")
		}
		k := goInt(fr, args[1])
		if k < 0 || k >= st.NumFields() {
			fr.i.rtPanic(fr, "reflect: Field index out of range")
		}
		ft := st.Field(k).Type()
		if b.addr != nil {
			s := (*b.addr).(structure)
			return mkValue(ft, load(ft, &s[k]), &s[k])
		}
		s := b.v.(structure)
		return mkValue(ft, s[k], nil)
	})
	vm("Len", func(fr *frame, t types.Type, b *rbox, _ []value) value {
		switch x := b.cur(t).(type) {
		case []value:
			return len(x)
		case array:
			return len(x)
		case string:
			return len(x)
		case *symStr:
			return len(x.b)
		case *omap:
			if x == nil {
				return 0
			}
			return x.len()
		}
		fr.i.rtPanic(fr, "reflect: call of reflect.Value.Len on "+reflectKindOf(t).String()+" Value")
		return nil
	})
	vm("Index", func(fr *frame, t types.Type, b *rbox, args []value) value {
		k := goInt(fr, args[1])
		switch u := t.Underlying().(type) {
		case *types.Slice:
			s := b.cur(t).([]value)
			if k < 0 || k >= len(s) {
				fr.i.rtPanic(fr, "reflect: slice index out of range")
			}
			return mkValue(u.Elem(), load(u.Elem(), &s[k]), &s[k])
		case *types.Array:
			if b.addr != nil {
				a := (*b.addr).(array)
				if k < 0 || k >= len(a) {
					fr.i.rtPanic(fr, "reflect: array index out of range")
				}
				return mkValue(u.Elem(), load(u.Elem(), &a[k]), &a[k])
			}
			a := b.v.(array)
			if k < 0 || k >= len(a) {
				fr.i.rtPanic(fr, "reflect: array index out of range")
			}
			return mkValue(u.Elem(), a[k], nil)
		}
		fr.i.rtPanic(fr, "reflect: call of reflect.Value.Index on "+reflectKindOf(t).String()+" Value")
		return nil
	})
	vm("MapIndex", func(fr *frame, t types.Type, b *rbox, args []value) value {
		mt, ok := t.Underlying().(*types.Map)
		if !ok {
			fr.i.rtPanic(fr, "reflect: call of reflect.Value.MapIndex on non-map Value")
		}
		kt, kb, kok := rv(args[1])
		m, _ := b.cur(t).(*omap)
		if !kok || m == nil {
			return zero(fr.fn.Signature.Results().At(0).Type())
		}
		v, found := m.lookup(fr, kb.cur(kt))
		if !found {
			return zero(fr.fn.Signature.Results().At(0).Type())
		}
		return mkValue(mt.Elem(), v, nil)
	})
	vm("MapKeys", func(fr *frame, t types.Type, b *rbox, _ []value) value {
		mt, ok := t.Underlying().(*types.Map)
		if !ok {
			fr.i.rtPanic(fr, "reflect: call of reflect.Value.MapKeys on non-map Value")
		}
		var out []value
		if m, _ := b.cur(t).(*omap); m != nil {
			for _, k := range m.keys {
				out = append(out, mkValue(mt.Key(), k, nil))
			}
		}
		return out
	})
	vm("SetMapIndex", func(fr *frame, t types.Type, b *rbox, args []value) value {
		m, _ := b.cur(t).(*omap)
		if m == nil {
			fr.i.rtPanic(fr, "assignment to entry in nil map")
		}
		kt, kb, kok := rv(args[1])
		if !kok {
			fr.i.rtPanic(fr, "reflect: SetMapIndex with zero key")
		}
		et, eb, eok := rv(args[2])
		if !eok {
			m.delete(fr, kb.cur(kt))
			return nil
		}
		m.insert(fr, kb.cur(kt), copyValue(eb.cur(et)))
		return nil
	})
	vm("Set", func(fr *frame, t types.Type, b *rbox, args []value) value {
		if b.addr == nil {
			fr.i.rtPanic(fr, "reflect: reflect.Value.Set using unaddressable value")
		}
		xt, xb, xok := rv(args[1])
		if !xok {
			fr.i.rtPanic(fr, "reflect: call of reflect.Value.Set with zero Value")
		}
		if !types.AssignableTo(xt, t) {
			fr.i.rtPanic(fr, "reflect.Set: value of type "+shortTypeString(xt)+" is not assignable to type "+shortTypeString(t))
		}
		x := copyValue(xb.cur(xt))
		if _, dstI := t.Underlying().(*types.Interface); dstI {
			if _, srcI := xt.Underlying().(*types.Interface); !srcI {
				x = iface{t: xt, v: x}
			}
		}
		fr.i.store(t, b.addr, x)
		return nil
	})
	vm("SetLen", func(fr *frame, t types.Type, b *rbox, args []value) value {
		if b.addr == nil {
			fr.i.rtPanic(fr, "reflect: reflect.Value.SetLen using unaddressable value")
		}
		s, _ := b.cur(t).([]value)
		n := goInt(fr, args[1])
		if n < 0 || n > cap(s) {
			fr.i.rtPanic(fr, "reflect: slice length out of range in SetLen")
		}
		fr.i.store(t, b.addr, s[:n])
		return nil
	})
	setBasic := func(name string, srcT types.Type) {
		vm(name, func(fr *frame, t types.Type, b *rbox, args []value) value {
			if b.addr == nil {
				fr.i.rtPanic(fr, "reflect: reflect.Value."+name+" using unaddressable value")
			}
			fr.i.store(t, b.addr, fr.conv(t, srcT, args[1]))
			return nil
		})
	}
	setBasic("SetInt", types.Typ[types.Int64])
	setBasic("SetUint", types.Typ[types.Uint64])
	setBasic("SetFloat", types.Typ[types.Float64])
	vm("SetBool", func(fr *frame, t types.Type, b *rbox, args []value) value {
		if b.addr == nil {
			fr.i.rtPanic(fr, "reflect: reflect.Value.SetBool using unaddressable value")
		}
		fr.i.store(t, b.addr, args[1])
		return nil
	})
	vm("SetString", func(fr *frame, t types.Type, b *rbox, args []value) value {
		if b.addr == nil {
			fr.i.rtPanic(fr, "reflect: reflect.Value.SetString using unaddressable value")
		}
		fr.i.store(t, b.addr, args[1])
		return nil
	})
	getBasic := func(name string, dstT types.Type) {
		vm(name, func(fr *frame, t types.Type, b *rbox, _ []value) value {
			if _, ok := t.Underlying().(*types.Basic); !ok {
				fr.i.rtPanic(fr, "reflect: call of reflect.Value."+name+" on "+reflectKindOf(t).String()+" Value")
			}
			return fr.conv(dstT, t, b.cur(t))
		})
	}
	getBasic("Int", types.Typ[types.Int64])
	getBasic("Uint", types.Typ[types.Uint64])
	getBasic("Float", types.Typ[types.Float64])
	vm("Bool", func(fr *frame, t types.Type, b *rbox, _ []value) value { return b.cur(t) })
	vm("String", func(fr *frame, t types.Type, b *rbox, _ []value) value {
		if bt, ok := t.Underlying().(*types.Basic); ok && bt.Info()&types.IsString != 0 {
			return b.cur(t)
		}
		return "<" + shortTypeString(t) + " Value>"
	})
	vm("Convert", func(fr *frame, t types.Type, b *rbox, args []value) value {
		dst := typeOfRT(args[1])
		if !types.ConvertibleTo(t, dst) {
			fr.i.rtPanic(fr, "reflect.Value.Convert: value of type "+shortTypeString(t)+" cannot be converted to type "+shortTypeString(dst))
		}
		if _, isI := dst.Underlying().(*types.Interface); isI {
			if _, srcI := t.Underlying().(*types.Interface); srcI {
				return mkValue(dst, b.cur(t), nil)
			}
			return mkValue(dst, iface{t: t, v: copyValue(b.cur(t))}, nil)
		}
		return mkValue(dst, fr.conv(dst, t, b.cur(t)), nil)
	})
	vm("FieldByIndex", func(fr *frame, t types.Type, b *rbox, args []value) value {
		cur := args[0]
		for _, ix := range args[1].([]value) {
			cur = in["(reflect.Value).Field"](fr, []value{cur, ix})
		}
		return cur
	})
	// sort.Slice / SliceStable use reflectlite to swap: insertion sort over the cells (stable)
	sortSlice := func(fr *frame, args []value) value {
		x := args[0].(iface)
		s, ok := x.v.([]value)
		if !ok {
			abandon("sort.Slice of %T", x.v)
		}
		less := args[1]
		for a := 1; a < len(s); a++ {
			for b := a; b > 0; b-- {
				r := fr.i.call(fr, fr.callpos, less, []value{b, b - 1})
				lt, isB := r.(bool)
				if !isB {
					lt = fr.truth(r, "if")
				}
				if !lt {
					break
				}
				s[b], s[b-1] = s[b-1], s[b]
			}
		}
		return nil
	}
	in["sort.Slice"] = sortSlice
	in["sort.SliceStable"] = sortSlice
	// pure helpers of package reflect that run as ordinary code
	for _, n := range []string{"(reflect.StructTag).Get", "(reflect.StructTag).Lookup", "(reflect.Kind).String", "(*reflect.ValueError).Error"} {
		i.reflectNative[n] = true
	}
	_ = strings.TrimSpace
	_ = fmt.Sprint
}

// equalsValue compares two interpreter values of type t concretely (symbolic cells abandon).
func equalsValue(fr *frame, t types.Type, a, b value) bool {
	defer func() {
		if r := recover(); r != nil {
			abandon("reflect: comparison of values of type %s", shortTypeString(t))
		}
	}()
	return fmt.Sprint(a) == fmt.Sprint(b)
}
