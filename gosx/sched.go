package main

// Bounded scheduler for two-thread harnesses (DESIGN.md 1.4): verif_par(f, g) runs f and g
// as two interpreter threads. Threads are host goroutines passing a baton, so exactly one
// interpreter thread runs at a time. Preemption points are loads and stores of heap cells
// and mutex operations; at each one the scheduler takes a decision "switch?" (a path
// decision, so schedules are explored by the same DFS), with at most maxSwitches voluntary
// context switches per run. A thread blocked on a mutex forces a switch; if nobody can run
// it is a deadlock. Memory is sequentially consistent.

import (
	"fmt"
	"go/token"
)

type thread struct {
	id      int
	resume  chan struct{}
	done    bool
	blocked *value // mutex it waits for
	err     interface{}
}

type threadAbort struct{}

type scheduler struct {
	abort       bool
	i           *interpreter
	threads     []*thread
	cur         *thread
	switches    int
	maxSwitches int
	active      bool
	mainWake    chan struct{}
	points      int
}

func (s *scheduler) reset() {
	s.threads = nil
	s.cur = nil
	s.switches = 0
	s.active = false
	s.points = 0
	s.abort = false
}

func (s *scheduler) runMain(f func()) { f() }

func (s *scheduler) spawn(fr *frame, fn value, args []value, pos token.Pos) {
	// `go` statements of the code under analysis are recorded, not run (as without scheduler)
	s.i.goCalls = append(s.i.goCalls, goCall{fn: fn, args: args, pos: pos})
}

// par runs the two closures as threads until both finished.
func (s *scheduler) par(fr *frame, fns []value) {
	if s.active {
		abandon("nested verif_par")
	}
	s.active = true
	s.mainWake = make(chan struct{})
	s.threads = nil
	for k := range fns {
		s.threads = append(s.threads, &thread{id: k, resume: make(chan struct{})})
	}
	for k, fn := range fns {
		t := s.threads[k]
		fn := fn
		go func() {
			<-t.resume
			if s.abort {
				t.done = true
				return
			}
			defer func() {
				r := recover()
				if _, aborted := r.(threadAbort); aborted {
					t.done = true
					return
				}
				if r != nil {
					t.err = r
					t.done = true
					s.mainWake <- struct{}{}
					return
				}
				t.done = true
				s.yieldFrom(t, true)
			}()
			s.i.call(fr, token.NoPos, fn, nil)
		}()
	}
	s.cur = s.threads[0]
	s.cur.resume <- struct{}{}
	<-s.mainWake
	s.active = false
	// release threads that are still parked (error in the other thread, or deadlock)
	s.abort = true
	for _, t := range s.threads {
		if !t.done {
			select {
			case t.resume <- struct{}{}:
			default:
			}
		}
	}
	for _, t := range s.threads {
		if t.err != nil {
			panic(t.err)
		}
	}
	for _, t := range s.threads {
		if !t.done {
			panic(pathEnd{kind: "deadlock", msg: fmt.Sprintf("thread %d never finished (blocked on a mutex held by a finished or blocked thread)", t.id)})
		}
	}
}

func (s *scheduler) other(t *thread) *thread {
	for _, o := range s.threads {
		if o != t {
			return o
		}
	}
	return nil
}

func (s *scheduler) runnable(t *thread) bool {
	if t == nil || t.done {
		return false
	}
	if t.blocked != nil {
		m := s.i.mutex(t.blocked)
		return !m.locked
	}
	return true
}

// yieldFrom hands the baton from t to the other thread (or back to the main goroutine when
// everything is finished or stuck). If t is not finished it waits to be resumed.
func (s *scheduler) yieldFrom(t *thread, finished bool) {
	o := s.other(t)
	if s.runnable(o) {
		s.cur = o
		o.resume <- struct{}{}
	} else if finished || !s.runnable(t) {
		// nobody else can run: if t is finished, or t itself is blocked, we are done/stuck
		if finished {
			allDone := true
			for _, x := range s.threads {
				if !x.done {
					allDone = false
				}
			}
			_ = allDone
		}
		s.mainWake <- struct{}{}
		if !finished {
			<-t.resume // resumed only to be aborted: the path ends in the main goroutine
			panic(threadAbort{})
		}
		return
	} else {
		return // t continues
	}
	if !finished {
		<-t.resume
		if s.abort {
			panic(threadAbort{})
		}
	}
}

func (s *scheduler) preempt(fr *frame, why string) {
	if !s.active || s.cur == nil {
		return
	}
	s.points++
	t := s.cur
	o := s.other(t)
	if s.switches >= s.maxSwitches || !s.runnable(o) {
		return
	}
	if s.i.ex.choice(2, "sched") == 1 {
		s.switches++
		// the schedule is part of the counterexample: record where the switch happened
		s.i.ex.inputs = append(s.i.ex.inputs, inputRec{Name: fmt.Sprintf("switch-from-thread-%d@%s(%s)", t.id, fr.site(), why), Kind: "sched", Value: uint64(s.points)})
		s.yieldFrom(t, false)
	}
}

func (s *scheduler) lock(fr *frame, p *value, read bool) value {
	i := s.i
	if !s.active {
		m := i.mutex(p)
		if m.locked || (!read && m.readers > 0) {
			panic(pathEnd{kind: "deadlock", msg: "Lock on a mutex already held (locked at " + m.site + ")", site: fr.caller.site()})
		}
		if read {
			m.readers++
		} else {
			m.locked = true
		}
		m.site = fr.caller.site()
		return nil
	}
	s.preempt(fr, "lock")
	t := s.cur
	for {
		m := i.mutex(p)
		if !(m.locked || (!read && m.readers > 0)) {
			if read {
				m.readers++
			} else {
				m.locked = true
				m.owner = t.id
			}
			m.site = fr.caller.site()
			t.blocked = nil
			return nil
		}
		// blocked: forced switch (not counted against the bound)
		t.blocked = p
		o := s.other(t)
		if !s.runnable(o) {
			panic(pathEnd{kind: "deadlock", msg: "both threads blocked: Lock on a mutex locked at " + m.site, site: fr.caller.site()})
		}
		s.cur = o
		o.resume <- struct{}{}
		<-t.resume
		if s.abort {
			panic(threadAbort{})
		}
	}
}

func (s *scheduler) unlock(fr *frame, p *value, read bool) value {
	i := s.i
	m := i.mutex(p)
	if read {
		if m.readers == 0 {
			i.rtPanic(fr.caller, "sync: RUnlock of unlocked RWMutex")
		}
		m.readers--
	} else {
		if !m.locked {
			i.rtPanic(fr.caller, "sync: unlock of unlocked mutex")
		}
		m.locked = false
	}
	if s.active {
		s.preempt(fr, "unlock")
	}
	return nil
}
