package main

// Bounded scheduler for 2-thread harnesses (see DESIGN.md 1.4). Threads are Go
// goroutines passing a baton, so exactly one interpreter thread runs at a time.

import (
	"go/token"
)

type scheduler struct {
	i *interpreter
}

func (s *scheduler) reset()                                                    {}
func (s *scheduler) preempt(fr *frame, why string)                             {}
func (s *scheduler) spawn(fr *frame, fn value, args []value, pos token.Pos)    { abandon("scheduler not enabled") }
func (s *scheduler) runMain(f func())                                          { f() }
func (s *scheduler) lock(fr *frame, p *value, read bool) value                 { abandon("scheduler lock"); return nil }
func (s *scheduler) unlock(fr *frame, p *value, read bool) value               { abandon("scheduler unlock"); return nil }
