// Operators of the symbolic interpreter. Structure follows
// golang.org/x/tools/go/ssa/interp/ops.go (BSD licence, see LICENSE.x-tools); every
// operator has a symbolic arm, and every run-time check of Go is an explicit obligation.

package main

import (
	"fmt"
	"go/token"
	"go/types"
	"strings"
	"unsafe"

	"golang.org/x/tools/go/ssa"
)

// If the target program panics, the interpreter panics with this type.
type targetPanic struct {
	v       value
	runtime bool   // a Go run-time error (index out of range, nil dereference, ...)
	msg     string // text for run-time errors
	site    string // where it was raised (function + position)
}

func (p targetPanic) String() string {
	if p.runtime {
		return "runtime error: " + p.msg
	}
	return toString(p.v)
}

// pathEnd terminates the current path for a reason other than a target panic.
type pathEnd struct {
	kind string // "abandon", "assume", "assert", "unwind", "deadlock", "budget", "exit"
	msg  string
	site string
}

func abandon(format string, args ...interface{}) {
	panic(pathEnd{kind: "abandon", msg: fmt.Sprintf(format, args...)})
}

// zero returns a new "zero" value of the specified type.
func zero(t types.Type) value {
	switch t := t.(type) {
	case *types.Basic:
		if t.Kind() == types.UntypedNil {
			panic("untyped nil has no zero value")
		}
		if t.Info()&types.IsUntyped != 0 {
			t = types.Default(t).(*types.Basic)
		}
		switch t.Kind() {
		case types.Bool:
			return false
		case types.Int:
			return int(0)
		case types.Int8:
			return int8(0)
		case types.Int16:
			return int16(0)
		case types.Int32:
			return int32(0)
		case types.Int64:
			return int64(0)
		case types.Uint:
			return uint(0)
		case types.Uint8:
			return uint8(0)
		case types.Uint16:
			return uint16(0)
		case types.Uint32:
			return uint32(0)
		case types.Uint64:
			return uint64(0)
		case types.Uintptr:
			return uintptr(0)
		case types.Float32:
			return float32(0)
		case types.Float64:
			return float64(0)
		case types.Complex64:
			return complex64(0)
		case types.Complex128:
			return complex128(0)
		case types.String:
			return ""
		case types.UnsafePointer:
			return unsafe.Pointer(nil)
		default:
			panic(fmt.Sprint("zero for unexpected type:", t))
		}
	case *types.Pointer:
		return (*value)(nil)
	case *types.Array:
		a := make(array, t.Len())
		for i := range a {
			a[i] = zero(t.Elem())
		}
		return a
	case *types.Named:
		return zero(t.Underlying())
	case *types.Alias:
		return zero(types.Unalias(t))
	case *types.Interface:
		return iface{} // nil type, methodset and value
	case *types.Slice:
		return []value(nil)
	case *types.Struct:
		s := make(structure, t.NumFields())
		for i := range s {
			s[i] = zero(t.Field(i).Type())
		}
		return s
	case *types.Tuple:
		if t.Len() == 1 {
			return zero(t.At(0).Type())
		}
		s := make(tuple, t.Len())
		for i := range s {
			s[i] = zero(t.At(i).Type())
		}
		return s
	case *types.Chan:
		return (*chanVal)(nil)
	case *types.Map:
		return (*omap)(nil)
	case *types.Signature:
		return (*ssa.Function)(nil)
	case *types.TypeParam:
		panic("zero of type parameter")
	}
	panic(fmt.Sprint("zero: unexpected ", t))
}

// ---------------------------------------------------------------------
// type helpers

func intInfo(t types.Type) (w int, signed bool, ok bool) {
	b, isb := t.Underlying().(*types.Basic)
	if !isb {
		return 0, false, false
	}
	switch b.Kind() {
	case types.Int, types.Int64, types.UntypedInt:
		return 64, true, true
	case types.Int8:
		return 8, true, true
	case types.Int16:
		return 16, true, true
	case types.Int32, types.UntypedRune:
		return 32, true, true
	case types.Uint, types.Uint64, types.Uintptr:
		return 64, false, true
	case types.Uint8:
		return 8, false, true
	case types.Uint16:
		return 16, false, true
	case types.Uint32:
		return 32, false, true
	}
	return 0, false, false
}

func isStringType(t types.Type) bool {
	b, ok := t.Underlying().(*types.Basic)
	return ok && b.Info()&types.IsString != 0
}

func isFloatVal(v value) bool {
	switch v.(type) {
	case float32, float64, complex64, complex128:
		return true
	}
	return false
}

// termOf lifts a concrete scalar to a constant Term.
func termOf(v value) *Term {
	switch x := v.(type) {
	case *Term:
		return x
	case bool:
		return mkBool(x)
	case int:
		return mkConst(64, uint64(x))
	case int8:
		return mkConst(8, uint64(x))
	case int16:
		return mkConst(16, uint64(x))
	case int32:
		return mkConst(32, uint64(x))
	case int64:
		return mkConst(64, uint64(x))
	case uint:
		return mkConst(64, uint64(x))
	case uint8:
		return mkConst(8, uint64(x))
	case uint16:
		return mkConst(16, uint64(x))
	case uint32:
		return mkConst(32, uint64(x))
	case uint64:
		return mkConst(64, x)
	case uintptr:
		return mkConst(64, uint64(x))
	case opaque:
		abandon("read of an opaque (unmodelled formatting) cell")
	}
	panic(fmt.Sprintf("termOf: cannot lift %T", v))
}

// fromConst converts a constant Term back to the native value of type t.
func fromConst(c *Term, t types.Type) value {
	if c.w == 0 {
		return c.val != 0
	}
	b := t.Underlying().(*types.Basic)
	switch b.Kind() {
	case types.Int, types.UntypedInt:
		return int(c.val)
	case types.Int8:
		return int8(c.val)
	case types.Int16:
		return int16(c.val)
	case types.Int32, types.UntypedRune:
		return int32(c.val)
	case types.Int64:
		return int64(c.val)
	case types.Uint:
		return uint(c.val)
	case types.Uint8:
		return uint8(c.val)
	case types.Uint16:
		return uint16(c.val)
	case types.Uint32:
		return uint32(c.val)
	case types.Uint64:
		return c.val
	case types.Uintptr:
		return uintptr(c.val)
	case types.Bool, types.UntypedBool:
		return c.val != 0
	}
	panic(fmt.Sprintf("fromConst: unexpected type %s", t))
}

// norm turns constant Terms back into native values.
func norm(v value, t types.Type) value {
	if c, ok := v.(*Term); ok && c.isConst() {
		return fromConst(c, t)
	}
	return v
}

var boolType = types.Typ[types.Bool]

func boolNot(v value) value {
	switch b := v.(type) {
	case bool:
		return !b
	case *Term:
		return norm(mkBNot(b), boolType)
	}
	panic(fmt.Sprintf("boolNot: %T", v))
}

func boolAnd(a, b value) value {
	if x, ok := a.(bool); ok {
		if !x {
			return false
		}
		return b
	}
	if y, ok := b.(bool); ok {
		if !y {
			return false
		}
		return a
	}
	return norm(mkBAnd(a.(*Term), b.(*Term)), boolType)
}

// ---------------------------------------------------------------------
// equality

// symEquals returns x == y (bool or *Term) for type t.
func symEquals(fr *frame, t types.Type, x, y value) value {
	// cells of an emulated reflect.Value (see reflect.go)
	if xr, ok := x.(rtype); ok {
		yr, ok2 := y.(rtype)
		return ok2 && xr.t == yr.t
	}
	if _, ok := y.(rtype); ok {
		return false
	}
	if xb, ok := x.(*rbox); ok {
		yb, _ := y.(*rbox)
		return xb == yb
	}
	if _, ok := y.(*rbox); ok {
		return false
	}
	switch xv := x.(type) {
	case *Term:
		return norm(mkEq(xv, termOf(y)), boolType)
	case opaque:
		abandon("comparison of an opaque cell")
	case string:
		switch yv := y.(type) {
		case string:
			return xv == yv
		case *symStr:
			return strEq(strCells(xv), yv.b)
		}
	case *symStr:
		return strEq(xv.b, strCells(y))
	case structure:
		yv := y.(structure)
		st := t.Underlying().(*types.Struct)
		var res value = true
		for i := 0; i < st.NumFields(); i++ {
			f := st.Field(i)
			if f.Name() == "_" {
				continue
			}
			res = boolAnd(res, symEquals(fr, f.Type(), xv[i], yv[i]))
			if b, ok := res.(bool); ok && !b {
				return false
			}
		}
		return res
	case array:
		yv := y.(array)
		et := t.Underlying().(*types.Array).Elem()
		var res value = true
		for i := range xv {
			res = boolAnd(res, symEquals(fr, et, xv[i], yv[i]))
			if b, ok := res.(bool); ok && !b {
				return false
			}
		}
		return res
	case iface:
		yv := y.(iface)
		if !sameType(xv.t, yv.t) {
			return false
		}
		if xv.t == nil {
			return true
		}
		if !types.Comparable(xv.t) {
			fr.i.rtPanic(fr, "comparing uncomparable type "+xv.t.String())
		}
		return symEquals(fr, xv.t, xv.v, yv.v)
	case *value:
		return xv == y.(*value)
	case *chanVal:
		return xv == y.(*chanVal)
	case unsafe.Pointer:
		return xv == y.(unsafe.Pointer)
	}
	if _, ok := y.(*Term); ok {
		return norm(mkEq(termOf(x), y.(*Term)), boolType)
	}
	if _, ok := y.(opaque); ok {
		abandon("comparison of an opaque cell")
	}
	switch x.(type) {
	case bool, int, int8, int16, int32, int64, uint, uint8, uint16, uint32, uint64, uintptr, float32, float64, complex64, complex128:
		return x == y
	}
	panic(fmt.Sprintf("symEquals: uncomparable %T (type %s)", x, t))
}

func strEq(a, b []value) value {
	if len(a) != len(b) {
		return false
	}
	for i := range a {
		_, oa := a[i].(opaque)
		_, ob := b[i].(opaque)
		if oa || ob {
			// comparison with unmodelled formatting output: the outcome is left open (fresh
			// boolean; both outcomes are explored, counterexamples are confirmed by replay)
			if curEx != nil {
				curEx.stats.OpaqueCompares++
				return curEx.freshInternal("opaque-eq", 0)
			}
			abandon("comparison of an opaque cell")
		}
	}
	var conj []*Term
	for i := range a {
		ca, oka := a[i].(byte)
		cb, okb := b[i].(byte)
		if oka && okb {
			if ca != cb {
				return false
			}
			continue
		}
		e := mkEq(termOf(a[i]), termOf(b[i]))
		if e == tFalse {
			return false
		}
		conj = append(conj, e)
	}
	return norm(mkBAnd(conj...), boolType)
}

// eqnil returns x == y where one operand may be the nil of a reference type.
func eqnil(fr *frame, t types.Type, x, y value) value {
	switch t.Underlying().(type) {
	case *types.Map, *types.Signature, *types.Slice:
		return isNilRef(x) == isNilRef(y) && (isNilRef(x) || isNilRef(y))
	}
	return symEquals(fr, t, x, y)
}

func isNilRef(x value) bool {
	switch x := x.(type) {
	case *omap:
		return x == nil
	case *ssa.Function:
		return x == nil
	case *closure:
		return x == nil
	case []value:
		return x == nil
	case *absBytes:
		return false
	case *ssa.Builtin:
		return false
	}
	panic(fmt.Sprintf("isNilRef: illegal dynamic type: %T", x))
}

// ---------------------------------------------------------------------
// binary operators

func (fr *frame) binop(op token.Token, tx, ty types.Type, x, y value) value {
	switch op {
	case token.EQL:
		return eqnil(fr, tx, x, y)
	case token.NEQ:
		return boolNot(eqnil(fr, tx, x, y))
	}
	_, xs := x.(*symStr)
	_, ys := y.(*symStr)
	if xs || ys {
		return fr.strBinop(op, x, y)
	}
	if _, ok := x.(opaque); ok {
		abandon("arithmetic on an opaque cell")
	}
	if _, ok := y.(opaque); ok {
		abandon("arithmetic on an opaque cell")
	}
	if isSym(x) || isSym(y) {
		return fr.symBinop(op, tx, ty, x, y)
	}
	// concrete: explicit run-time checks first
	switch op {
	case token.QUO, token.REM:
		if _, _, isInt := intInfo(tx); isInt && asInt64(y) == 0 {
			fr.i.rtPanic(fr, "integer divide by zero")
		}
	case token.SHL, token.SHR:
		if _, ok := asUnsigned(y); !ok {
			fr.i.rtPanic(fr, "negative shift amount")
		}
	}
	return binopConcrete(op, tx, x, y)
}

func eqnilConcrete(t types.Type, x, y value) bool {
	panic("eqnilConcrete: unreachable (EQL/NEQ handled by frame.binop)")
}

func (fr *frame) strBinop(op token.Token, x, y value) value {
	a, b := strCells(x), strCells(y)
	switch op {
	case token.ADD:
		out := make([]value, 0, len(a)+len(b))
		out = append(out, a...)
		out = append(out, b...)
		return mkString(out)
	case token.LSS, token.LEQ, token.GTR, token.GEQ:
		// lexicographic comparison: decide by forking on the first differing position
		n := len(a)
		if len(b) < n {
			n = len(b)
		}
		for i := 0; i < n; i++ {
			ta, tb := termOf(a[i]), termOf(b[i])
			if fr.truth(norm(mkEq(ta, tb), boolType), "strcmp") {
				continue
			}
			lt := fr.truth(norm(mkCmp(OpUlt, ta, tb), boolType), "strcmp")
			switch op {
			case token.LSS, token.LEQ:
				return lt
			default:
				return !lt
			}
		}
		switch op {
		case token.LSS:
			return len(a) < len(b)
		case token.LEQ:
			return len(a) <= len(b)
		case token.GTR:
			return len(a) > len(b)
		default:
			return len(a) >= len(b)
		}
	}
	panic(fmt.Sprintf("invalid string op %s", op))
}

func (fr *frame) symBinop(op token.Token, tx, ty types.Type, x, y value) value {
	if isFloatVal(x) || isFloatVal(y) {
		abandon("symbolic floating point")
	}
	if b, ok := tx.Underlying().(*types.Basic); ok && b.Info()&types.IsBoolean != 0 {
		panic(fmt.Sprintf("symBinop: boolean op %s", op))
	}
	w, signed, ok := intInfo(tx)
	if !ok {
		if b, isb := tx.Underlying().(*types.Basic); isb && b.Info()&types.IsFloat != 0 {
			abandon("symbolic floating point")
		}
		panic(fmt.Sprintf("symBinop: non-integer type %s", tx))
	}
	a := termOf(x)
	if a.w != w {
		panic(fmt.Sprintf("symBinop: operand width %d != type width %d (%s)", a.w, w, tx))
	}
	switch op {
	case token.SHL, token.SHR:
		b := termOf(y)
		_, ysigned, _ := intInfo(ty)
		if ysigned {
			neg := norm(mkCmp(OpSlt, b, mkConst(b.w, 0)), boolType)
			if fr.truth(neg, "shift-neg") {
				fr.i.rtPanic(fr, "negative shift amount")
			}
		}
		// bring the count to width w, saturating
		var cnt *Term
		if b.w > w {
			big := mkCmp(OpUle, mkConst(b.w, uint64(w)), b)
			cnt = mkIte(big, mkConst(w, uint64(w)), mkExtract(b, w-1, 0))
		} else {
			cnt = mkZExt(b, w)
		}
		var r *Term
		if op == token.SHL {
			r = mkBin(OpShl, a, cnt)
		} else if signed {
			r = mkBin(OpAShr, a, cnt)
		} else {
			r = mkBin(OpLShr, a, cnt)
		}
		return norm(r, tx)
	}
	b := termOf(y)
	if b.w != w {
		panic(fmt.Sprintf("symBinop %s: width mismatch %d/%d", op, a.w, b.w))
	}
	var r *Term
	switch op {
	case token.ADD:
		r = mkBin(OpAdd, a, b)
	case token.SUB:
		r = mkBin(OpSub, a, b)
	case token.MUL:
		r = mkBin(OpMul, a, b)
	case token.QUO, token.REM:
		isZero := norm(mkEq(b, mkConst(w, 0)), boolType)
		if fr.truth(isZero, "div-zero") {
			fr.i.rtPanic(fr, "integer divide by zero")
		}
		switch {
		case op == token.QUO && signed:
			r = mkBin(OpSDiv, a, b)
		case op == token.QUO:
			r = mkBin(OpUDiv, a, b)
		case signed:
			r = mkBin(OpSRem, a, b)
		default:
			r = mkBin(OpURem, a, b)
		}
	case token.AND:
		r = mkBin(OpAnd, a, b)
	case token.OR:
		r = mkBin(OpOr, a, b)
	case token.XOR:
		r = mkBin(OpXor, a, b)
	case token.AND_NOT:
		r = mkBin(OpAnd, a, mkNot(b))
	case token.LSS:
		if signed {
			return norm(mkCmp(OpSlt, a, b), boolType)
		}
		return norm(mkCmp(OpUlt, a, b), boolType)
	case token.LEQ:
		if signed {
			return norm(mkCmp(OpSle, a, b), boolType)
		}
		return norm(mkCmp(OpUle, a, b), boolType)
	case token.GTR:
		if signed {
			return norm(mkCmp(OpSlt, b, a), boolType)
		}
		return norm(mkCmp(OpUlt, b, a), boolType)
	case token.GEQ:
		if signed {
			return norm(mkCmp(OpSle, b, a), boolType)
		}
		return norm(mkCmp(OpUle, b, a), boolType)
	default:
		panic(fmt.Sprintf("symBinop: invalid op %s", op))
	}
	return norm(r, tx)
}

// ---------------------------------------------------------------------
// unary operators

func (fr *frame) unop(instr *ssa.UnOp, x value) value {
	switch instr.Op {
	case token.ARROW:
		abandon("channel receive")
	case token.SUB:
		if t, ok := x.(*Term); ok {
			return norm(mkNeg(t), instr.X.Type())
		}
		return unopNegConcrete(x)
	case token.MUL:
		if sr, ok := x.(*symRef); ok {
			return norm(copyValue(fr.indexRead(sr.cells, sr.idx, sr.t)), instr.Type())
		}
		p := x.(*value)
		if p == nil {
			fr.i.rtPanic(fr, "invalid memory address or nil pointer dereference")
		}
		if al, isAlloc := instr.X.(*ssa.Alloc); !(isAlloc && !al.Heap) {
			fr.i.preempt(fr, "load")
		}
		return load(deref(instr.X.Type()), p)
	case token.NOT:
		return boolNot(x)
	case token.XOR:
		if t, ok := x.(*Term); ok {
			return norm(mkNot(t), instr.X.Type())
		}
		return unopXorConcrete(x)
	}
	panic(fmt.Sprintf("invalid unary op %s %T", instr.Op, x))
}

func unopNegConcrete(x value) value {
	switch x := x.(type) {
	case int:
		return -x
	case int8:
		return -x
	case int16:
		return -x
	case int32:
		return -x
	case int64:
		return -x
	case uint:
		return -x
	case uint8:
		return -x
	case uint16:
		return -x
	case uint32:
		return -x
	case uint64:
		return -x
	case uintptr:
		return -x
	case float32:
		return -x
	case float64:
		return -x
	case complex64:
		return -x
	case complex128:
		return -x
	}
	panic(fmt.Sprintf("invalid unary - on %T", x))
}

func unopXorConcrete(x value) value {
	switch x := x.(type) {
	case int:
		return ^x
	case int8:
		return ^x
	case int16:
		return ^x
	case int32:
		return ^x
	case int64:
		return ^x
	case uint:
		return ^x
	case uint8:
		return ^x
	case uint16:
		return ^x
	case uint32:
		return ^x
	case uint64:
		return ^x
	case uintptr:
		return ^x
	}
	panic(fmt.Sprintf("invalid unary ^ on %T", x))
}

// ---------------------------------------------------------------------
// indexing and slicing

// idx64 converts an index value of static type t to a signed 64-bit Term or int64;
// unsigned values >= 2^63 become negative (and therefore fail every bounds check).
func idx64(v value, t types.Type) (int64, *Term) {
	if tm, ok := v.(*Term); ok {
		_, signed, _ := intInfo(t)
		if tm.w == 64 {
			return 0, tm
		}
		if signed {
			return 0, mkSExt(tm, 64)
		}
		return 0, mkZExt(tm, 64)
	}
	if _, ok := v.(opaque); ok {
		abandon("index is an opaque cell")
	}
	return asInt64(v), nil
}

// checkIndex implements the bounds check of x[idx] for a collection of length n and
// returns the concrete index (forking over feasible values when symbolic).
func (fr *frame) checkIndex(idx value, t types.Type, n int) int {
	c, tm := idx64(idx, t)
	if tm == nil {
		if c < 0 || c >= int64(n) {
			fr.i.rtPanic(fr, fmt.Sprintf("index out of range [%d] with length %d", c, n))
		}
		return int(c)
	}
	inb := mkCmp(OpUlt, tm, mkConst(64, uint64(n))) // unsigned compare covers negatives
	if !fr.truth(norm(inb, boolType), "index") {
		fr.i.rtPanic(fr, fmt.Sprintf("index out of range [symbolic] with length %d", n))
	}
	return int(fr.i.ex.concretize(fr, tm, 0, int64(n)-1))
}

// indexRead implements x[idx] for reading a cell: with a symbolic index over scalar
// cells the result is an ite-chain (no forking); otherwise the index is concretised.
func (fr *frame) indexRead(cells []value, idx value, t types.Type) value {
	c, tm := idx64(idx, t)
	n := len(cells)
	if tm == nil {
		if c < 0 || c >= int64(n) {
			fr.i.rtPanic(fr, fmt.Sprintf("index out of range [%d] with length %d", c, n))
		}
		return cells[c]
	}
	if n == 0 || n > 256 || !iteCells(cells) {
		return cells[fr.checkIndex(idx, t, n)]
	}
	inb := mkCmp(OpUlt, tm, mkConst(64, uint64(n)))
	if !fr.truth(norm(inb, boolType), "index") {
		fr.i.rtPanic(fr, fmt.Sprintf("index out of range [symbolic] with length %d", n))
	}
	return iteChain(cells, tm)
}

// cellWidth is the bit width of a scalar cell (0 = bool, -1 = not a scalar).
func cellWidth(cell value) int {
	switch x := cell.(type) {
	case *Term:
		return x.w
	case bool:
		return 0
	case int, int64, uint, uint64, uintptr:
		return 64
	case int32, uint32:
		return 32
	case int16, uint16:
		return 16
	case int8, uint8:
		return 8
	}
	return -1
}

// iteCells reports whether a read at a symbolic index can be an ite-chain: all cells are
// scalars of one width, or structs (of structs ...) of such scalars with one shape.
func iteCells(cells []value) bool {
	if st, ok := cells[0].(structure); ok {
		for _, c := range cells {
			o, ok := c.(structure)
			if !ok || len(o) != len(st) {
				return false
			}
		}
		for f := range st {
			col := make([]value, len(cells))
			for k, c := range cells {
				col[k] = c.(structure)[f]
			}
			if !iteCells(col) {
				return false
			}
		}
		return true
	}
	w := cellWidth(cells[0])
	if w < 0 {
		return false
	}
	for _, c := range cells {
		if cellWidth(c) != w {
			return false
		}
	}
	return true
}

func iteChain(cells []value, tm *Term) value {
	n := len(cells)
	if st, ok := cells[0].(structure); ok {
		out := make(structure, len(st))
		for f := range st {
			col := make([]value, n)
			for k, c := range cells {
				col[k] = c.(structure)[f]
			}
			out[f] = iteChain(col, tm)
		}
		return out
	}
	// all cells concrete and equal: no term needed
	same := true
	for _, c := range cells {
		if _, sym := c.(*Term); sym || c != cells[0] {
			same = false
			break
		}
	}
	if same {
		return cells[0]
	}
	res := termOf(cells[n-1])
	for k := n - 2; k >= 0; k-- {
		res = mkIte(mkEq(tm, mkConst(64, uint64(k))), termOf(cells[k]), res)
	}
	return res
}

// slice returns x[lo:hi:max].  Any of lo, hi and max may be nil.
func (fr *frame) slice(instr *ssa.Slice, x, lo, hi, max value) value {
	if ab, ok := x.(*absBytes); ok {
		return fr.sliceAbstract(instr, ab, lo, hi, max)
	}
	var Len, Cap int
	isStr := false
	switch x := x.(type) {
	case string:
		Len, Cap, isStr = len(x), len(x), true
	case *symStr:
		Len, Cap, isStr = len(x.b), len(x.b), true
	case []value:
		Len = len(x)
		Cap = cap(x)
	case *value: // *array
		if x == nil {
			fr.i.rtPanic(fr, "invalid memory address or nil pointer dereference")
		}
		a := (*x).(array)
		Len = len(a)
		Cap = cap(a)
	default:
		panic(fmt.Sprintf("slice: unexpected X type: %T", x))
	}
	type bound struct {
		c  int64
		t  *Term
		ok bool
	}
	get := func(v value, sv ssa.Value, def int) bound {
		if v == nil {
			return bound{c: int64(def)}
		}
		c, t := idx64(v, sv.Type())
		return bound{c: c, t: t, ok: true}
	}
	l := get(lo, instr.Low, 0)
	h := get(hi, instr.High, Len)
	m := get(max, instr.Max, Cap)
	upper := Cap
	if isStr {
		upper = Len
	}
	tm := func(b bound) *Term {
		if b.t != nil {
			return b.t
		}
		return mkConst(64, uint64(b.c))
	}
	if l.t != nil || h.t != nil || m.t != nil {
		zero64 := mkConst(64, 0)
		ok := mkBAnd(
			mkCmp(OpSle, zero64, tm(l)),
			mkCmp(OpSle, tm(l), tm(h)),
			mkCmp(OpSle, tm(h), tm(m)),
			mkCmp(OpSle, tm(m), mkConst(64, uint64(upper))),
		)
		if !fr.truth(norm(ok, boolType), "slice-bounds") {
			fr.i.rtPanic(fr, fmt.Sprintf("slice bounds out of range [symbolic] with capacity %d", upper))
		}
		if m.t != nil {
			m.c = fr.i.ex.concretize(fr, m.t, 0, int64(upper))
		}
		if h.t != nil {
			h.c = fr.i.ex.concretize(fr, h.t, 0, m.c)
		}
		if l.t != nil {
			l.c = fr.i.ex.concretize(fr, l.t, 0, h.c)
		}
	} else {
		if !(0 <= l.c && l.c <= h.c && h.c <= m.c && m.c <= int64(upper)) {
			fr.i.rtPanic(fr, fmt.Sprintf("slice bounds out of range [%d:%d:%d] with capacity %d", l.c, h.c, m.c, upper))
		}
	}
	switch x := x.(type) {
	case string:
		return x[l.c:h.c]
	case *symStr:
		return mkString(x.b[l.c:h.c])
	case []value:
		return x[l.c:h.c:m.c]
	case *value: // *array
		a := (*x).(array)
		return []value(a)[l.c:h.c:m.c]
	}
	panic("unreachable")
}

func (fr *frame) sliceAbstract(instr *ssa.Slice, ab *absBytes, lo, hi, max value) value {
	tm := func(v value, sv ssa.Value, def *Term) *Term {
		if v == nil {
			return def
		}
		c, t := idx64(v, sv.Type())
		if t != nil {
			return t
		}
		return mkConst(64, uint64(c))
	}
	l := tm(lo, instr.Low, mkConst(64, 0))
	h := tm(hi, instr.High, ab.n)
	m := tm(max, instr.Max, ab.c)
	ok := mkBAnd(mkCmp(OpSle, mkConst(64, 0), l), mkCmp(OpSle, l, h), mkCmp(OpSle, h, m), mkCmp(OpSle, m, ab.c))
	if !fr.truth(norm(ok, boolType), "slice-bounds") {
		fr.i.rtPanic(fr, "slice bounds out of range [abstract buffer]")
	}
	return &absBytes{id: ab.id, off: mkBin(OpAdd, ab.off, l), n: mkBin(OpSub, h, l), c: mkBin(OpSub, m, l)}
}

// lookup returns x[idx] where x is a map.
func (fr *frame) lookup(instr *ssa.Lookup, x, idx value) value {
	m, ok := x.(*omap)
	if !ok {
		panic(fmt.Sprintf("unexpected x type in Lookup: %T", x))
	}
	elemT := instr.X.Type().Underlying().(*types.Map).Elem()
	// large read-only tables with a symbolic scalar key: do not fork per entry
	if tk, isT := idx.(*Term); isT && m.len() > 16 {
		var disj []*Term
		for _, k := range m.keys {
			disj = append(disj, mkEq(tk, termOf(k)))
		}
		present := norm(mkBOr(disj...), boolType)
		if isStringType(elemT) {
			var v value = &symStr{b: []value{opaque{}}}
			if instr.CommaOk {
				return tuple{v, present}
			}
			// absent -> "" ; present -> opaque text. Fork on presence.
			if fr.truth(present, "map-present") {
				return v
			}
			return ""
		}
		// otherwise fall through to forking lookup
	}
	v, found := m.lookup(fr, idx)
	if !found {
		v = zero(elemT)
	} else {
		v = copyValue(v)
	}
	if instr.CommaOk {
		return tuple{v, found}
	}
	return v
}

// typeAssert checks whether dynamic type of itf is instr.AssertedType.
func (fr *frame) typeAssert(instr *ssa.TypeAssert, itf iface) value {
	var v value
	err := ""
	if itf.t == nil {
		err = fmt.Sprintf("interface conversion: interface is nil, not %s", instr.AssertedType)
	} else if idst, ok := instr.AssertedType.Underlying().(*types.Interface); ok {
		v = itf
		if meth, _ := types.MissingMethod(itf.t, idst, true); meth != nil {
			err = fmt.Sprintf("interface conversion: %v is not %v: missing method %s", itf.t, idst, meth.Name())
		}
	} else if types.Identical(itf.t, instr.AssertedType) {
		v = itf.v // extract value
	} else {
		err = fmt.Sprintf("interface conversion: interface is %s, not %s", itf.t, instr.AssertedType)
	}
	if err != "" {
		if !instr.CommaOk {
			fr.i.rtPanic(fr, err)
		}
		return tuple{zero(instr.AssertedType), false}
	}
	if instr.CommaOk {
		return tuple{v, true}
	}
	return v
}

// ---------------------------------------------------------------------
// built-ins

func (fr *frame) callBuiltin(callpos token.Pos, fn *ssa.Builtin, args []value) value {
	i := fr.i
	switch fn.Name() {
	case "append":
		if len(args) == 1 {
			return args[0]
		}
		if _, ok := args[0].(*absBytes); ok {
			abandon("append to an abstract buffer")
		}
		if _, ok := args[1].(*absBytes); ok {
			abandon("append of an abstract buffer (cells are not modelled)")
		}
		arg0 := args[0].([]value)
		var src []value
		if isStringVal(args[1]) {
			src = strCells(args[1])
		} else {
			src = args[1].([]value)
		}
		if len(src) == 0 {
			return arg0
		}
		// cells written into spare capacity of a pre-existing backing array must be undone
		if i.undoOn && cap(arg0)-len(arg0) > 0 {
			n := cap(arg0) - len(arg0)
			if n > len(src) {
				n = len(src)
			}
			spare := arg0[len(arg0) : len(arg0)+n]
			for k := range spare {
				i.undo = append(i.undo, undoRec{addr: &spare[k], old: spare[k]})
			}
		}
		for _, e := range src {
			arg0 = append(arg0, copyValue(e))
		}
		return arg0

	case "copy": // copy([]T, []T) int or copy([]byte, string) int
		dst := args[0].([]value)
		var src []value
		if isStringVal(args[1]) {
			src = strCells(args[1])
		} else {
			src = args[1].([]value)
		}
		n := len(dst)
		if len(src) < n {
			n = len(src)
		}
		tmp := make([]value, n)
		for k := 0; k < n; k++ {
			tmp[k] = copyValue(src[k])
		}
		for k := 0; k < n; k++ {
			i.setCell(&dst[k], tmp[k])
		}
		return n

	case "close":
		abandon("close of channel")

	case "delete":
		m := args[0].(*omap)
		if m != nil {
			m.delete(fr, args[1])
		}
		return nil

	case "print", "println":
		return nil

	case "len":
		switch x := args[0].(type) {
		case string:
			return len(x)
		case *symStr:
			return len(x.b)
		case array:
			return len(x)
		case *value:
			if x == nil {
				// len(*[N]T)(nil) is N by type; not needed in practice
				abandon("len of nil array pointer")
			}
			return len((*x).(array))
		case []value:
			return len(x)
		case *absBytes:
			return norm(x.n, types.Typ[types.Int])
		case *omap:
			return x.len()
		case *chanVal:
			return 0
		default:
			panic(fmt.Sprintf("len: illegal operand: %T", x))
		}

	case "cap":
		switch x := args[0].(type) {
		case array:
			return cap(x)
		case *value:
			return cap((*x).(array))
		case []value:
			return cap(x)
		case *absBytes:
			return norm(x.c, types.Typ[types.Int])
		case *chanVal:
			return 0
		default:
			panic(fmt.Sprintf("cap: illegal operand: %T", x))
		}

	case "min", "max":
		for _, a := range args {
			if isSym(a) {
				abandon("min/max on symbolic operand")
			}
		}
		if fn.Name() == "min" {
			return foldLeft(min, args)
		}
		return foldLeft(max, args)

	case "real", "imag", "complex":
		abandon("complex numbers")

	case "panic":
		panic(targetPanic{v: args[0], site: fr.site()})

	case "recover":
		return doRecover(fr)

	case "ssa:wrapnilchk":
		recv := args[0]
		if recv.(*value) == nil {
			recvType := args[1]
			methodName := args[2]
			fr.i.rtPanic(fr, fmt.Sprintf("value method (%s).%s called using nil *%s pointer", recvType, methodName, recvType))
		}
		return recv

	case "ssa:deferstack":
		return &fr.defers

	// package unsafe
	case "String": // unsafe.String(ptr *byte, len)
		n := int(asInt64(args[1]))
		p := args[0].(*value)
		if n == 0 {
			return ""
		}
		if p == nil {
			fr.i.rtPanic(fr, "unsafe.String: ptr is nil and len is not zero")
		}
		return mkString(unsafeCells(p, n))
	case "SliceData":
		s := args[0].([]value)
		if cap(s) == 0 {
			return (*value)(nil)
		}
		s = s[:1]
		return &s[0]
	case "StringData":
		cells := strCells(args[0])
		if len(cells) == 0 {
			return (*value)(nil)
		}
		cp := make([]value, len(cells))
		copy(cp, cells)
		return &cp[0]
	case "Slice":
		n := int(asInt64(args[1]))
		p := args[0].(*value)
		if p == nil {
			if n == 0 {
				return []value(nil)
			}
			fr.i.rtPanic(fr, "unsafe.Slice: ptr is nil and len is not zero")
		}
		return unsafeCells(p, n)[:n:n]
	case "clear":
		switch x := args[0].(type) {
		case *omap:
			if x != nil {
				for x.len() > 0 {
					x.delete(fr, x.keys[0])
				}
			}
		case []value:
			// fn.Type() is the instantiated signature func([]T): zero every element in place
			if sig, ok := fn.Type().(*types.Signature); ok && sig.Params().Len() == 1 {
				if st, ok := sig.Params().At(0).Type().Underlying().(*types.Slice); ok {
					for k := range x {
						fr.i.store(st.Elem(), &x[k], zero(st.Elem()))
					}
					return nil
				}
			}
			abandon("clear of slice of unknown element type")
		}
		return nil
	}

	panic("unknown built-in: " + fn.Name())
}

// ---------------------------------------------------------------------
// iteration

type stringIter struct {
	cells []value
	i     int
}

func (it *stringIter) next(fr *frame) tuple {
	if it.i >= len(it.cells) {
		return tuple{false, nil, nil}
	}
	pos := it.i
	c := it.cells[pos]
	if b, ok := c.(byte); ok && b < 0x80 {
		it.i++
		return tuple{true, pos, rune(b)}
	}
	// general case: run the real utf8.DecodeRuneInString on the rest of the string
	rest := mkString(it.cells[pos:])
	if s, ok := rest.(string); ok {
		for _, r := range s {
			n := len(string(r))
			if r == 0xFFFD {
				// invalid encoding consumes one byte; a literal U+FFFD consumes three
				if !(len(s) >= 3 && s[0] == 0xEF && s[1] == 0xBF && s[2] == 0xBD) {
					n = 1
				}
			}
			it.i += n
			return tuple{true, pos, r}
		}
	}
	fn := fr.i.lookupFunc("unicode/utf8", "DecodeRuneInString")
	if fn == nil {
		abandon("range over symbolic string: unicode/utf8 not loaded")
	}
	res := fr.i.callSSA(fr, token.NoPos, fn, []value{rest}, nil).(tuple)
	size := int(asInt64(res[1]))
	it.i += size
	return tuple{true, pos, res[0]}
}

func rangeIter(fr *frame, x value, t types.Type) iter {
	switch x := x.(type) {
	case *omap:
		if x == nil {
			return &omapIter{m: nil}
		}
		ks := make([]value, len(x.keys))
		vs := make([]value, len(x.vals))
		copy(ks, x.keys)
		copy(vs, x.vals)
		return &omapIter{keys: ks, vals: vs, m: x}
	case string, *symStr:
		return &stringIter{cells: strCells(x)}
	}
	panic(fmt.Sprintf("cannot range over %T", x))
}

// ---------------------------------------------------------------------
// conversions

func (fr *frame) conv(t_dst, t_src types.Type, x value) value {
	ut_src := t_src.Underlying()
	ut_dst := t_dst.Underlying()

	if _, ok := x.(opaque); ok {
		abandon("conversion of an opaque cell")
	}

	switch ut_src := ut_src.(type) {
	case *types.Pointer:
		if b, ok := ut_dst.(*types.Basic); ok && b.Kind() == types.UnsafePointer {
			return unsafe.Pointer(x.(*value))
		}
		if _, ok := ut_dst.(*types.Pointer); ok {
			return x
		}

	case *types.Slice:
		// []byte or []rune -> string
		if db, ok := ut_dst.(*types.Basic); ok && db.Info()&types.IsString != 0 {
			switch ut_src.Elem().Underlying().(*types.Basic).Kind() {
			case types.Byte:
				return mkString(x.([]value))
			case types.Rune:
				xs := x.([]value)
				r := make([]rune, 0, len(xs))
				for k := range xs {
					rv, ok := xs[k].(rune)
					if !ok {
						abandon("[]rune -> string with symbolic runes")
					}
					r = append(r, rv)
				}
				return string(r)
			}
		}
		if _, ok := ut_dst.(*types.Slice); ok {
			return x
		}

	case *types.Basic:
		// string source (possibly symbolic)
		if ut_src.Info()&types.IsString != 0 {
			switch ut_dst := ut_dst.(type) {
			case *types.Slice:
				switch ut_dst.Elem().Underlying().(*types.Basic).Kind() {
				case types.Rune:
					s, ok := x.(string)
					if !ok {
						// decode rune by rune through the real utf8 code
						it := &stringIter{cells: strCells(x)}
						var res []value
						for {
							t := it.next(fr)
							if !t[0].(bool) {
								break
							}
							res = append(res, t[2])
						}
						return res
					}
					var res []value
					for _, r := range []rune(s) {
						res = append(res, r)
					}
					return res
				case types.Byte:
					cells := strCells(x)
					res := make([]value, len(cells))
					copy(res, cells)
					return res
				}
			case *types.Basic:
				if ut_dst.Info()&types.IsString != 0 {
					return x
				}
			}
			break
		}

		// symbolic integer source
		if tm, ok := x.(*Term); ok {
			if tm.w == 0 {
				if db, ok := ut_dst.(*types.Basic); ok && db.Info()&types.IsBoolean != 0 {
					return x
				}
				panic("conv of symbolic bool")
			}
			dw, _, dok := intInfo(t_dst)
			_, ssigned, _ := intInfo(t_src)
			if dok {
				var r *Term
				switch {
				case dw == tm.w:
					r = tm
				case dw < tm.w:
					r = mkExtract(tm, dw-1, 0)
				case ssigned:
					r = mkSExt(tm, dw)
				default:
					r = mkZExt(tm, dw)
				}
				return norm(r, t_dst)
			}
			if db, ok := ut_dst.(*types.Basic); ok {
				if db.Info()&types.IsString != 0 {
					// string(rune): fork on ASCII, else abandon
					_, ssigned, _ := intInfo(t_src)
					var wide *Term
					if ssigned {
						wide = mkSExt(tm, 64)
					} else {
						wide = mkZExt(tm, 64)
					}
					if fr.truth(norm(mkCmp(OpUlt, wide, mkConst(64, 0x80)), boolType), "rune-ascii") {
						return mkString([]value{mkExtract(wide, 7, 0)})
					}
					abandon("string(rune) of symbolic non-ASCII rune")
				}
				if db.Info()&types.IsFloat != 0 {
					abandon("symbolic int -> float conversion")
				}
			}
			panic(fmt.Sprintf("unsupported symbolic conversion %s -> %s", t_src, t_dst))
		}

		x = widen(x)

		// integer -> string?
		if ut_src.Info()&types.IsInteger != 0 {
			if ut_dst, ok := ut_dst.(*types.Basic); ok && ut_dst.Kind() == types.String {
				switch v := x.(type) {
				case int64:
					if v < 0 || v > 0x10FFFF {
						return "�"
					}
					return string(rune(v))
				case uint64:
					if v > 0x10FFFF {
						return "�"
					}
					return string(rune(v))
				}
			}
		}

		// unsafe.Pointer -> *value
		if ut_src.Kind() == types.UnsafePointer {
			if p, ok := x.(unsafe.Pointer); ok {
				if _, isPtr := ut_dst.(*types.Pointer); isPtr {
					// only round trips of *value are meaningful
					return (*value)(p)
				}
				if db, ok := ut_dst.(*types.Basic); ok && db.Kind() == types.Uintptr {
					return uintptr(p)
				}
			}
			return zero(t_dst)
		}

		if ut_src.Info()&types.IsComplex != 0 {
			abandon("complex conversion")
		}

		// Conversions between non-complex numeric types?
		if ut_src.Info()&types.IsNumeric != 0 {
			db, ok := ut_dst.(*types.Basic)
			if !ok {
				break
			}
			if db.Kind() == types.UnsafePointer {
				return unsafe.Pointer(nil)
			}
			kind := db.Kind()
			switch x := x.(type) {
			case int64:
				return convNum(kind, x, 0, 0, 0)
			case uint64:
				return convNum(kind, 0, x, 0, 1)
			case float64:
				return convNum(kind, 0, 0, x, 2)
			}
		}
	}

	panic(fmt.Sprintf("unsupported conversion: %s  -> %s, dynamic type %T", t_src, t_dst, x))
}

func convNum(kind types.BasicKind, s int64, u uint64, f float64, which int) value {
	switch which {
	case 0:
		switch kind {
		case types.Int:
			return int(s)
		case types.Int8:
			return int8(s)
		case types.Int16:
			return int16(s)
		case types.Int32:
			return int32(s)
		case types.Int64:
			return int64(s)
		case types.Uint:
			return uint(s)
		case types.Uint8:
			return uint8(s)
		case types.Uint16:
			return uint16(s)
		case types.Uint32:
			return uint32(s)
		case types.Uint64:
			return uint64(s)
		case types.Uintptr:
			return uintptr(s)
		case types.Float32:
			return float32(s)
		case types.Float64:
			return float64(s)
		}
	case 1:
		switch kind {
		case types.Int:
			return int(u)
		case types.Int8:
			return int8(u)
		case types.Int16:
			return int16(u)
		case types.Int32:
			return int32(u)
		case types.Int64:
			return int64(u)
		case types.Uint:
			return uint(u)
		case types.Uint8:
			return uint8(u)
		case types.Uint16:
			return uint16(u)
		case types.Uint32:
			return uint32(u)
		case types.Uint64:
			return uint64(u)
		case types.Uintptr:
			return uintptr(u)
		case types.Float32:
			return float32(u)
		case types.Float64:
			return float64(u)
		}
	case 2:
		switch kind {
		case types.Int:
			return int(f)
		case types.Int8:
			return int8(f)
		case types.Int16:
			return int16(f)
		case types.Int32:
			return int32(f)
		case types.Int64:
			return int64(f)
		case types.Uint:
			return uint(f)
		case types.Uint8:
			return uint8(f)
		case types.Uint16:
			return uint16(f)
		case types.Uint32:
			return uint32(f)
		case types.Uint64:
			return uint64(f)
		case types.Uintptr:
			return uintptr(f)
		case types.Float32:
			return float32(f)
		case types.Float64:
			return float64(f)
		}
	}
	panic(fmt.Sprintf("convNum: unsupported destination kind %v", kind))
}

// sliceToArrayPointer converts the value x of type slice to type t_dst
// a pointer to array and returns the result.
func (fr *frame) sliceToArrayPointer(t_dst, t_src types.Type, x value) value {
	if _, ok := t_src.Underlying().(*types.Slice); ok {
		if ptr, ok := t_dst.Underlying().(*types.Pointer); ok {
			if arr, ok := ptr.Elem().Underlying().(*types.Array); ok {
				x := x.([]value)
				if arr.Len() > int64(len(x)) {
					fr.i.rtPanic(fr, "cannot convert slice to array pointer: length too small")
				}
				if x == nil {
					return zero(t_dst)
				}
				v := value(array(x[:arr.Len()]))
				return &v
			}
		}
	}
	panic(fmt.Sprintf("unsupported conversion: %s  -> %s, dynamic type %T", t_src, t_dst, x))
}

func lowerFirst(s string) string {
	if s == "" {
		return s
	}
	return strings.ToLower(s[:1]) + s[1:]
}
