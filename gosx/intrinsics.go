package main

// Intrinsics: the harness API (nondet_*, verif_*), the sync primitives, assembly-backed
// leaves of the standard library, and the "opaque formatting" environment rules.
// Everything here is listed in the evidence of each run (by name, when actually hit).

import (
	"math"
	"fmt"
	"go/token"
	"go/types"
	"os"
	"strconv"
	"strings"

	"golang.org/x/tools/go/ssa"
)

type intrinsic func(fr *frame, args []value) value

type mutexState struct {
	locked  bool
	readers int
	owner   int
	site    string
}

func (i *interpreter) noteStub(name string) {
	if i.ex != nil {
		i.ex.stubHits[name]++
	}
}

func goString(fr *frame, v value) string {
	s, ok := v.(string)
	if !ok {
		abandon("harness API needs a concrete string, got %s", toString(v))
	}
	return s
}

func goInt(fr *frame, v value) int {
	if isSym(v) {
		abandon("harness API needs a concrete int")
	}
	return int(asInt64(v))
}

var nondetKinds = map[string]struct {
	w    int
	kind string
	typ  types.BasicKind
}{
	"nondet_u8": {8, "u8", types.Uint8}, "nondet_byte": {8, "u8", types.Uint8},
	"nondet_u16": {16, "u16", types.Uint16}, "nondet_u32": {32, "u32", types.Uint32},
	"nondet_u64": {64, "u64", types.Uint64}, "nondet_uint": {64, "uint", types.Uint},
	"nondet_i8": {8, "i8", types.Int8}, "nondet_i16": {16, "i16", types.Int16},
	"nondet_i32": {32, "i32", types.Int32}, "nondet_i64": {64, "i64", types.Int64},
	"nondet_int": {64, "int", types.Int}, "nondet_bool": {0, "bool", types.Bool},
}

// harnessIntrinsic resolves the harness API by function name.
func (i *interpreter) harnessIntrinsic(fn *ssa.Function) intrinsic {
	name := fn.Name()
	if nk, ok := nondetKinds[name]; ok {
		return func(fr *frame, args []value) value {
			return fr.i.ex.freshInput(goString(fr, args[0]), nk.kind, nk.w)
		}
	}
	switch name {
	case "nondet_bytes":
		return func(fr *frame, args []value) value {
			n := goInt(fr, args[1])
			nm := goString(fr, args[0])
			out := make([]value, n)
			for k := range out {
				out[k] = fr.i.ex.freshInput(fmt.Sprintf("%s[%d]", nm, k), "u8", 8)
			}
			return out
		}
	case "nondet_string":
		return func(fr *frame, args []value) value {
			n := goInt(fr, args[1])
			nm := goString(fr, args[0])
			out := make([]value, n)
			for k := range out {
				out[k] = fr.i.ex.freshInput(fmt.Sprintf("%s[%d]", nm, k), "u8", 8)
			}
			return mkString(out)
		}
	case "nondet_bytes_abstract":
		return func(fr *frame, args []value) value {
			nm := goString(fr, args[0])
			n := fr.i.ex.freshInput(nm+".len", "u64", 64)
			fr.i.ex.absSeq++
			lim := mkCmp(OpUle, n, mkConst(64, 1<<40))
			fr.i.ex.assertPC(lim)
			return &absBytes{id: fr.i.ex.absSeq, off: mkConst(64, 0), n: n, c: n}
		}
	case "verif_abs_offset":
		return func(fr *frame, args []value) value {
			ab, ok := args[0].(*absBytes)
			if !ok {
				abandon("verif_abs_offset of a concrete slice")
			}
			return norm(ab.off, types.Typ[types.Int])
		}
	case "verif_abs_id":
		return func(fr *frame, args []value) value {
			ab, ok := args[0].(*absBytes)
			if !ok {
				return -1
			}
			return ab.id
		}
	case "nondet_choice":
		return func(fr *frame, args []value) value {
			n := goInt(fr, args[1])
			c := fr.i.ex.choice(n, "choice")
			fr.i.ex.recordChoice(goString(fr, args[0]), c)
			return c
		}
	case "verif_bound":
		// verif_bound(name, quick, thorough): the bound for the tier of this run
		return func(fr *frame, args []value) value {
			if fr.i.thorough {
				return goInt(fr, args[2])
			}
			return goInt(fr, args[1])
		}
	case "verif_par":
		return func(fr *frame, args []value) value {
			fr.i.sched.par(fr, []value{args[0], args[1]})
			return nil
		}
	case "verif_sched_points":
		return func(fr *frame, args []value) value { return fr.i.sched.points }
	case "verif_symbolic":
		return func(fr *frame, args []value) value { return true }
	case "verif_assume":
		return func(fr *frame, args []value) value {
			switch c := args[0].(type) {
			case bool:
				if !c {
					panic(pathEnd{kind: "assume", msg: "assumption false"})
				}
			case *Term:
				ok, _ := fr.i.ex.feasible(c)
				if !ok {
					panic(pathEnd{kind: "assume", msg: "assumption infeasible"})
				}
				fr.i.ex.assertPC(c)
			}
			return nil
		}
	case "verif_assert":
		return func(fr *frame, args []value) value {
			label := goString(fr, args[1])
			fr.i.ex.checkAssert(fr, args[0], label)
			return nil
		}
	case "verif_fail":
		return func(fr *frame, args []value) value {
			label := goString(fr, args[0])
			fr.i.ex.checkAssert(fr, false, label)
			return nil
		}
	case "verif_note":
		return func(fr *frame, args []value) value {
			fr.i.ex.notes = append(fr.i.ex.notes, toString(args[0]))
			return nil
		}
	case "verif_witness":
		return func(fr *frame, args []value) value {
			if fr.i.ex.witness {
				panic(pathEnd{kind: "witness"})
			}
			return nil
		}
	case "verif_uf8":
		return func(fr *frame, args []value) value {
			nm := goString(fr, args[0])
			var ts []*Term
			for _, a := range args[1].([]value) {
				ts = append(ts, termOf(a))
			}
			return mkUF(nm, 8, ts...)
		}
	case "verif_no_locks_held":
		return func(fr *frame, args []value) value {
			label := goString(fr, args[0])
			for _, m := range fr.i.mutexes {
				if m.locked || m.readers > 0 {
					fr.i.ex.stats.Obligations++
					fr.i.ex.violation("lock-leak", "mutex still held: locked at "+m.site, m.site, label, fr.caller.stackTrace(), nil)
					panic(pathEnd{kind: "assert", msg: "lock leak"})
				}
			}
			fr.i.ex.stats.Obligations++
			fr.i.ex.stats.ObligConst++
			return nil
		}
	case "verif_opaque_string":
		return func(fr *frame, args []value) value { return &symStr{b: []value{opaque{}}} }
	case "verif_go_count":
		return func(fr *frame, args []value) value { return len(fr.i.goCalls) }
	case "verif_drop_goroutines":
		return func(fr *frame, args []value) value {
			fr.i.goCalls = nil
			return nil
		}
	case "verif_run_goroutines":
		return func(fr *frame, args []value) value {
			calls := fr.i.goCalls
			fr.i.goCalls = nil
			for _, c := range calls {
				fr.i.call(fr, c.pos, c.fn, c.args)
			}
			return nil
		}
	case "verif_is_symbolic_bytes":
		return func(fr *frame, args []value) value {
			for _, c := range args[0].([]value) {
				if _, ok := c.(byte); !ok {
					return true
				}
			}
			return false
		}
	case "verif_set_loop_bound":
		return func(fr *frame, args []value) value {
			fr.i.loopBound = goInt(fr, args[0])
			return nil
		}
	case "verif_concretize":
		return func(fr *frame, args []value) value {
			if t, ok := args[0].(*Term); ok {
				_, signed, _ := intInfo(fn.Signature.Params().At(0).Type())
				w := t
				if t.w < 64 {
					if signed {
						w = mkSExt(t, 64)
					} else {
						w = mkZExt(t, 64)
					}
				}
				v := fr.i.ex.concretize(fr, w, -1<<62, 1<<62)
				return fromConst(mkConst(t.w, uint64(v)), fn.Signature.Params().At(0).Type())
			}
			return args[0]
		}
	}
	return nil
}

// checkAssert evaluates a harness assertion (an obligation).
func (ex *Explorer) checkAssert(fr *frame, c value, label string) {
	ex.stats.Obligations++
	caller := fr.caller
	site := "?"
	var stack []string
	if caller != nil {
		site = caller.site()
		stack = caller.stackTrace()
	}
	switch b := c.(type) {
	case bool:
		ex.stats.ObligConst++
		if !b {
			ex.violation("assert", "assertion failed: "+label, site, label, stack, nil)
			panic(pathEnd{kind: "assert", msg: label})
		}
		ex.assertLbl[label]++
	case *Term:
		ex.stats.ObligSolver++
		neg := mkBNot(b)
		bad, unk := ex.feasible(neg)
		if unk {
			ex.pathUnknown = true
		}
		if bad && !unk {
			ex.dumpQuery(append(append([]*Term{}, ex.pc...), neg), "assert "+label+" (sat = violation)")
			ex.violation("assert", "assertion failed: "+label, site, label, stack, neg)
			// continue on the passing side if it exists
			ok, _ := ex.feasible(b)
			if !ok {
				panic(pathEnd{kind: "assert", msg: label})
			}
			ex.assertPC(b)
			return
		}
		if !bad {
			ex.dumpQuery(append(append([]*Term{}, ex.pc...), neg), "assert "+label+" (unsat = holds)")
			ex.assertLbl[label]++
		}
		ex.assertPC(b)
	default:
		panic(fmt.Sprintf("verif_assert: not a boolean: %T", c))
	}
}

func (ex *Explorer) dumpQuery(asserts []*Term, comment string) {
	if ex.dumpDir == "" || ex.dumped >= ex.maxDump {
		return
	}
	ex.dumped++
	os.MkdirAll(ex.dumpDir, 0o755)
	f := fmt.Sprintf("%s/q%04d.smt2", ex.dumpDir, ex.dumped)
	os.WriteFile(f, []byte(standaloneScript(asserts, comment)), 0o644)
}

// ---------------------------------------------------------------------
// generic "opaque" results

func (i *interpreter) opaqueResult(fr *frame, t types.Type, hint string) value {
	switch u := t.Underlying().(type) {
	case *types.Basic:
		switch {
		case u.Info()&types.IsString != 0:
			return &symStr{b: []value{opaque{}}}
		case u.Info()&types.IsBoolean != 0:
			return i.ex.freshInternal(hint, 0)
		case u.Info()&types.IsInteger != 0:
			w, _, _ := intInfo(t)
			return i.ex.freshInternal(hint, w)
		}
		return zero(t)
	case *types.Slice:
		if b, ok := u.Elem().Underlying().(*types.Basic); ok && b.Kind() == types.Uint8 {
			return []value{opaque{}}
		}
		return zero(t)
	case *types.Tuple:
		out := make(tuple, u.Len())
		for k := range out {
			out[k] = i.opaqueResult(fr, u.At(k).Type(), hint)
		}
		return out
	}
	return zero(t)
}

func opaqueCall(fr *frame, args []value) value {
	res := fr.fn.Signature.Results()
	fr.i.noteStub("opaque:" + fr.fn.String())
	switch res.Len() {
	case 0:
		return nil
	case 1:
		return fr.i.opaqueResult(fr, res.At(0).Type(), fr.fn.Name())
	}
	return fr.i.opaqueResult(fr, res, fr.fn.Name())
}

func noopCall(fr *frame, args []value) value {
	fr.i.noteStub("noop:" + fr.fn.Pkg.Pkg.Path())
	return resultZero(fr.fn)
}

func pkgPathOf(fn *ssa.Function) string {
	if fn.Pkg != nil {
		return fn.Pkg.Pkg.Path()
	}
	if fn.Signature.Recv() != nil {
		t := fn.Signature.Recv().Type()
		if p, ok := t.(*types.Pointer); ok {
			t = p.Elem()
		}
		if n, ok := t.(*types.Named); ok && n.Obj().Pkg() != nil {
			return n.Obj().Pkg().Path()
		}
	}
	if fn.Object() != nil && fn.Object().Pkg() != nil {
		return fn.Object().Pkg().Path()
	}
	return ""
}

var noopPkgs = map[string]bool{
	"Havoc/pkg/logger":                    true,
	"github.com/olekukonko/tablewriter":   true,
	"log":                                 true,
	"Havoc/pkg/webhook":                   true,
	"github.com/gin-gonic/gin/internal":   false,
	"runtime/debug":                       true,
}

var opaquePkgs = map[string]bool{
	"time":                   true,
	"Havoc/pkg/colors":       true,
	"github.com/fatih/color": true,
	"math/rand":              true,
	"crypto/rand":            false,
}

func (i *interpreter) patternIntrinsic(fn *ssa.Function) intrinsic {
	name := fn.Name()
	if strings.HasPrefix(name, "nondet_") || strings.HasPrefix(name, "verif_") {
		if in := i.harnessIntrinsic(fn); in != nil {
			return in
		}
		if fn.Blocks == nil {
			panic("unknown harness API function " + name)
		}
		return nil
	}
	pp := pkgPathOf(fn)
	if i.initMode {
		return nil
	}
	if noopPkgs[pp] {
		return noopCall
	}
	if pp == "reflect" && i.reflectNative[fn.String()] {
		return nil
	}
	if pp == "reflect" || pp == "github.com/fatih/structs" || pp == "internal/reflectlite" {
		return func(fr *frame, args []value) value {
			abandon("reflection is not encoded (%s)", fr.fn.String())
			return nil
		}
	}
	if opaquePkgs[pp] {
		return opaqueCall
	}
	return nil
}

// ---------------------------------------------------------------------
// registration of named intrinsics

func (i *interpreter) registerIntrinsics() {
	in := i.intrinsics
	i.reflectNative = map[string]bool{}
	i.registerReflect()
	// sync.Mutex / RWMutex
	in["(*sync.Mutex).Lock"] = func(fr *frame, args []value) value { return fr.mutexLock(args[0].(*value), false) }
	in["(*sync.Mutex).Unlock"] = func(fr *frame, args []value) value { return fr.mutexUnlock(args[0].(*value), false) }
	in["(*sync.Mutex).TryLock"] = func(fr *frame, args []value) value {
		m := fr.i.mutex(args[0].(*value))
		if m.locked {
			return false
		}
		fr.mutexLock(args[0].(*value), false)
		return true
	}
	in["(*sync.RWMutex).Lock"] = func(fr *frame, args []value) value { return fr.mutexLock(args[0].(*value), false) }
	in["(*sync.RWMutex).Unlock"] = func(fr *frame, args []value) value { return fr.mutexUnlock(args[0].(*value), false) }
	in["(*sync.RWMutex).RLock"] = func(fr *frame, args []value) value { return fr.mutexLock(args[0].(*value), true) }
	in["(*sync.RWMutex).RUnlock"] = func(fr *frame, args []value) value { return fr.mutexUnlock(args[0].(*value), true) }
	in["(*sync.Once).Do"] = func(fr *frame, args []value) value {
		p := args[0].(*value)
		if fr.i.onces[p] {
			return nil
		}
		fr.i.onces[p] = true
		if fr.i.undoOn {
			fr.i.undo = append(fr.i.undo, undoRec{fn: func() { delete(fr.i.onces, p) }})
		}
		fr.i.call(fr, fr.callpos, args[1], nil)
		return nil
	}
	// float kernels with assembly implementations on this architecture: host function, concrete only
	for name, f := range map[string]func(float64) float64{
		"math.archLog": math.Log, "math.archExp": math.Exp, "math.archFloor": math.Floor, "math.archCeil": math.Ceil,
		"math.archTrunc": math.Trunc, "math.archSqrt": math.Sqrt, "math.sqrt": math.Sqrt, "math.Sqrt": math.Sqrt,
		"math.Log": math.Log, "math.Floor": math.Floor, "math.Ceil": math.Ceil, "math.Trunc": math.Trunc, "math.Exp": math.Exp,
	} {
		f := f
		nm := name
		in[nm] = func(fr *frame, args []value) value {
			x, ok := args[0].(float64)
			if !ok {
				abandon("%s of a symbolic value", nm)
			}
			return f(x)
		}
	}
	// bit casts between floats and integers are unsafe pointer casts in the standard library
	in["math.Float64bits"] = func(fr *frame, args []value) value {
		f, ok := args[0].(float64)
		if !ok {
			abandon("math.Float64bits of a symbolic value")
		}
		return math.Float64bits(f)
	}
	in["math.Float64frombits"] = func(fr *frame, args []value) value {
		u, ok := args[0].(uint64)
		if !ok {
			abandon("math.Float64frombits of a symbolic value")
		}
		return math.Float64frombits(u)
	}
	in["math.Float32bits"] = func(fr *frame, args []value) value {
		f, ok := args[0].(float32)
		if !ok {
			abandon("math.Float32bits of a symbolic value")
		}
		return math.Float32bits(f)
	}
	in["math.Float32frombits"] = func(fr *frame, args []value) value {
		u, ok := args[0].(uint32)
		if !ok {
			abandon("math.Float32frombits of a symbolic value")
		}
		return math.Float32frombits(u)
	}
	// sync.Pool without reuse: Get hands out New() (or nil), Put drops the value
	in["(*sync.Pool).Put"] = noopNamed
	in["(*sync.Pool).Get"] = func(fr *frame, args []value) value {
		p := args[0].(*value)
		st := (*p).(structure)
		sig := fr.fn.Signature
		if ptr, ok := sig.Recv().Type().(*types.Pointer); ok {
			if ts, ok := ptr.Elem().Underlying().(*types.Struct); ok {
				for k := 0; k < ts.NumFields(); k++ {
					if ts.Field(k).Name() == "New" {
						if st[k] == nil {
							return iface{}
						}
						if c, ok := st[k].(*closure); ok && c == nil {
							return iface{}
						}
						if f, ok := st[k].(*ssa.Function); ok && f == nil {
							return iface{}
						}
						return fr.i.call(fr, fr.callpos, st[k], nil)
					}
				}
			}
		}
		abandon("sync.Pool layout not recognised")
		return nil
	}
	in["(*sync.WaitGroup).Add"] = noopNamed
	in["(*sync.WaitGroup).Done"] = noopNamed
	in["(*sync.WaitGroup).Wait"] = noopNamed
	// sync.Map as an ordered map kept in a side table
	in["(*sync.Map).Store"] = func(fr *frame, args []value) value {
		fr.i.syncMap(args[0].(*value)).insert(fr, args[1], args[2])
		return nil
	}
	in["(*sync.Map).Load"] = func(fr *frame, args []value) value {
		v, ok := fr.i.syncMap(args[0].(*value)).lookup(fr, args[1])
		if !ok {
			return tuple{iface{}, false}
		}
		return tuple{v, true}
	}
	in["(*sync.Map).Delete"] = func(fr *frame, args []value) value {
		fr.i.syncMap(args[0].(*value)).delete(fr, args[1])
		return nil
	}
	in["(*sync.Map).LoadOrStore"] = func(fr *frame, args []value) value {
		m := fr.i.syncMap(args[0].(*value))
		if v, ok := m.lookup(fr, args[1]); ok {
			return tuple{v, true}
		}
		m.insert(fr, args[1], args[2])
		return tuple{args[2], false}
	}
	in["(*sync.Map).LoadAndDelete"] = func(fr *frame, args []value) value {
		m := fr.i.syncMap(args[0].(*value))
		if v, ok := m.lookup(fr, args[1]); ok {
			m.delete(fr, args[1])
			return tuple{v, true}
		}
		return tuple{iface{}, false}
	}
	in["(*sync.Map).Range"] = func(fr *frame, args []value) value {
		m := fr.i.syncMap(args[0].(*value))
		ks := append([]value(nil), m.keys...)
		for _, k := range ks {
			v, ok := m.lookup(fr, k)
			if !ok {
				continue
			}
			r := fr.i.call(fr, fr.callpos, args[1], []value{k, v})
			if !fr.truth(r, "syncmap-range") {
				break
			}
		}
		return nil
	}

	// assembly-backed leaves
	in["internal/bytealg.IndexByteString"] = func(fr *frame, args []value) value {
		return indexCell(fr, strCells(args[0]), args[1])
	}
	in["internal/bytealg.IndexByte"] = func(fr *frame, args []value) value {
		return indexCell(fr, args[0].([]value), args[1])
	}
	in["internal/bytealg.CountString"] = func(fr *frame, args []value) value {
		return countCell(fr, strCells(args[0]), args[1])
	}
	in["internal/bytealg.Count"] = func(fr *frame, args []value) value {
		return countCell(fr, args[0].([]value), args[1])
	}
	in["internal/bytealg.IndexString"] = func(fr *frame, args []value) value {
		return indexSub(fr, strCells(args[0]), strCells(args[1]))
	}
	in["internal/bytealg.Index"] = func(fr *frame, args []value) value {
		return indexSub(fr, args[0].([]value), args[1].([]value))
	}
	in["internal/bytealg.Equal"] = func(fr *frame, args []value) value {
		return strEq(args[0].([]value), args[1].([]value))
	}
	in["internal/bytealg.Compare"] = func(fr *frame, args []value) value {
		return compareCells(fr, args[0].([]value), args[1].([]value))
	}
	in["internal/stringslite.Index"] = func(fr *frame, args []value) value {
		return indexSub(fr, strCells(args[0]), strCells(args[1]))
	}
	in["internal/bytealg.MakeNoZero"] = func(fr *frame, args []value) value {
		n := goInt(fr, args[0])
		out := make([]value, n)
		for k := range out {
			out[k] = byte(0)
		}
		return out
	}
	in["internal/abi.NoEscape"] = func(fr *frame, args []value) value { return args[0] }
	in["internal/abi.Escape"] = func(fr *frame, args []value) value { return args[0] }
	in["runtime.KeepAlive"] = noopNamed
	in["runtime.Gosched"] = noopNamed
	in["internal/race.Enable"] = noopNamed
	in["internal/race.Disable"] = noopNamed
	in["internal/race.ReadRange"] = noopNamed
	in["internal/race.WriteRange"] = noopNamed
	in["internal/race.Acquire"] = noopNamed
	in["internal/race.Release"] = noopNamed
	in["internal/race.ReleaseMerge"] = noopNamed
	in["os.Exit"] = func(fr *frame, args []value) value {
		panic(pathEnd{kind: "abandon", msg: "os.Exit called"})
	}

	// formatting
	in["fmt.Sprintf"] = func(fr *frame, args []value) value { return fr.sprintf(args[0], args[1].([]value)) }
	in["fmt.Sprint"] = func(fr *frame, args []value) value { return fr.sprint(args[0].([]value), false) }
	in["fmt.Sprintln"] = func(fr *frame, args []value) value { return fr.sprint(args[0].([]value), true) }
	in["fmt.Errorf"] = func(fr *frame, args []value) value {
		s := fr.sprintf(args[0], args[1].([]value))
		return fr.i.newError(fr, s)
	}
	for _, n := range []string{"fmt.Println", "fmt.Printf", "fmt.Print", "fmt.Fprintf", "fmt.Fprintln", "fmt.Fprint"} {
		in[n] = func(fr *frame, args []value) value {
			fr.i.noteStub("noop:fmt.Print*")
			return tuple{0, iface{}}
		}
	}
	in["strconv.Itoa"] = symOrReal(func(fr *frame, args []value) value { return &symStr{b: []value{opaque{}}} })
	in["strconv.FormatInt"] = symOrReal(func(fr *frame, args []value) value { return &symStr{b: []value{opaque{}}} })
	in["strconv.FormatUint"] = symOrReal(func(fr *frame, args []value) value { return &symStr{b: []value{opaque{}}} })
	for _, n := range []string{"Havoc/pkg/common.ByteCountSI", "Havoc/pkg/utils.ByteCountSI"} {
		in[n] = symOrReal(func(fr *frame, args []value) value { return &symStr{b: []value{opaque{}}} })
	}
	in["Havoc/pkg/common.PercentageChange"] = symOrReal(func(fr *frame, args []value) value { return float64(0) })
	// time formatting yields the layout text itself (a fixed, well-formed placeholder)
	in["(time.Time).Format"] = func(fr *frame, args []value) value {
		fr.i.noteStub("placeholder:(time.Time).Format")
		return args[1]
	}
	in["Havoc/pkg/common.Bmp2Png"] = func(fr *frame, args []value) value {
		fr.i.noteStub("opaque:common.Bmp2Png")
		return []value{opaque{}}
	}
	in["encoding/json.Marshal"] = func(fr *frame, args []value) value {
		fr.i.noteStub("opaque:encoding/json.Marshal")
		var payload value
		if a, ok := args[0].(iface); ok {
			payload = a.v
		}
		return tuple{[]value{opaque{payload: payload}}, iface{}}
	}
	// json.Unmarshal of text produced by the json.Marshal model into a map restores the map;
	// any other use must be stubbed by the harness.
	in["encoding/json.Unmarshal"] = func(fr *frame, args []value) value {
		data, _ := args[0].([]value)
		target, _ := args[1].(iface)
		if len(data) == 1 {
			if op, ok := data[0].(opaque); ok {
				if m, ok := op.payload.(*omap); ok && m != nil {
					if p, ok := target.v.(*value); ok && p != nil {
						if pt, ok := target.t.Underlying().(*types.Pointer); ok {
							if _, ok := pt.Elem().Underlying().(*types.Map); ok {
								cp := makeMap(m.keyType)
								for k := range m.keys {
									cp.insert(fr, m.keys[k], m.vals[k])
								}
								fr.i.setCell(p, cp)
								fr.i.noteStub("model:encoding/json.Unmarshal(of json.Marshal output)")
								return iface{}
							}
						}
					}
				}
			}
		}
		abandon("json.Unmarshal of text that is not the json.Marshal model (stub it in the harness)")
		return nil
	}
	in["encoding/json.MarshalIndent"] = in["encoding/json.Marshal"]
	in["(*encoding/base64.Encoding).EncodeToString"] = func(fr *frame, args []value) value {
		fr.i.noteStub("opaque:base64.EncodeToString")
		return &symStr{b: []value{opaque{}}}
	}
	in["encoding/hex.EncodeToString"] = func(fr *frame, args []value) value {
		src := args[0].([]value)
		out := make([]value, 0, 2*len(src))
		for _, c := range src {
			hi, lo := hexNibbles(c)
			out = append(out, hi, lo)
		}
		return mkString(out)
	}
	in["encoding/hex.Dump"] = func(fr *frame, args []value) value { return &symStr{b: []value{opaque{}}} }
}

func noopNamed(fr *frame, args []value) value { return resultZero(fr.fn) }

// symOrReal uses the intrinsic only when some argument is symbolic; otherwise the real code runs.
func symOrReal(sym intrinsic) intrinsic {
	return func(fr *frame, args []value) value {
		anySym := false
		for _, a := range args {
			if isSym(a) {
				anySym = true
			}
		}
		if anySym {
			fr.i.noteStub("opaque-if-symbolic:" + fr.fn.String())
			return sym(fr, args)
		}
		return fr.i.callBody(fr.caller, fr.callpos, fr.fn, args)
	}
}

// callBody executes fn's real body, bypassing the intrinsic table.
func (i *interpreter) callBody(caller *frame, pos token.Pos, fn *ssa.Function, args []value) value {
	saved, had := i.intrinsics[fn.String()]
	delete(i.intrinsics, fn.String())
	defer func() {
		if had {
			i.intrinsics[fn.String()] = saved
		}
	}()
	return i.callSSA(caller, pos, fn, args, nil)
}

func hexNibbles(c value) (value, value) {
	if b, ok := c.(byte); ok {
		const tbl = "0123456789abcdef"
		return tbl[b>>4], tbl[b&15]
	}
	t := termOf(c)
	nib := func(n *Term) value {
		// n is 8 bits, value 0..15
		isDigit := mkCmp(OpUlt, n, mkConst(8, 10))
		return mkIte(isDigit, mkBin(OpAdd, n, mkConst(8, '0')), mkBin(OpAdd, n, mkConst(8, 'a'-10)))
	}
	hi := mkBin(OpLShr, t, mkConst(8, 4))
	lo := mkBin(OpAnd, t, mkConst(8, 15))
	return nib(hi), nib(lo)
}

func (i *interpreter) newError(fr *frame, msg value) value {
	fn := i.lookupFunc("errors", "New")
	if fn == nil {
		abandon("errors package not loaded")
	}
	return i.callSSA(fr, token.NoPos, fn, []value{msg}, nil)
}

// ---------------------------------------------------------------------
// cell searches (bytealg)

func indexCell(fr *frame, cells []value, c value) value {
	for k, x := range cells {
		if fr.truth(symEquals(fr, types.Typ[types.Uint8], x, c), "indexbyte") {
			return k
		}
	}
	return -1
}

func countCell(fr *frame, cells []value, c value) value {
	n := 0
	for _, x := range cells {
		if fr.truth(symEquals(fr, types.Typ[types.Uint8], x, c), "countbyte") {
			n++
		}
	}
	return n
}

func indexSub(fr *frame, s, sub []value) value {
	if len(sub) == 0 {
		return 0
	}
	for k := 0; k+len(sub) <= len(s); k++ {
		if fr.truth(strEq(s[k:k+len(sub)], sub), "indexstr") {
			return k
		}
	}
	return -1
}

func compareCells(fr *frame, a, b []value) value {
	n := len(a)
	if len(b) < n {
		n = len(b)
	}
	for k := 0; k < n; k++ {
		ta, tb := termOf(a[k]), termOf(b[k])
		if fr.truth(norm(mkEq(ta, tb), boolType), "compare") {
			continue
		}
		if fr.truth(norm(mkCmp(OpUlt, ta, tb), boolType), "compare") {
			return -1
		}
		return 1
	}
	switch {
	case len(a) < len(b):
		return -1
	case len(a) > len(b):
		return 1
	}
	return 0
}

// ---------------------------------------------------------------------
// mutexes

func (i *interpreter) mutex(p *value) *mutexState {
	m, ok := i.mutexes[p]
	if !ok {
		m = &mutexState{}
		i.mutexes[p] = m
	}
	return m
}

func (fr *frame) mutexLock(p *value, read bool) value {
	i := fr.i
	if p == nil {
		i.rtPanic(fr.caller, "invalid memory address or nil pointer dereference")
	}
	if i.sched != nil {
		return i.sched.lock(fr, p, read)
	}
	m := i.mutex(p)
	if m.locked || (!read && m.readers > 0) {
		panic(pathEnd{kind: "deadlock", msg: "Lock on a mutex already held (locked at " + m.site + ") by the only runnable goroutine", site: fr.caller.site()})
	}
	if read {
		m.readers++
	} else {
		m.locked = true
	}
	m.site = fr.caller.site()
	return nil
}

func (fr *frame) mutexUnlock(p *value, read bool) value {
	i := fr.i
	if p == nil {
		i.rtPanic(fr.caller, "invalid memory address or nil pointer dereference")
	}
	if i.sched != nil {
		return i.sched.unlock(fr, p, read)
	}
	m := i.mutex(p)
	if read {
		if m.readers == 0 {
			panic(targetPanic{v: iface{t: i.runtimeErrorString, v: "fatal error: sync: RUnlock of unlocked RWMutex"}, runtime: true, msg: "sync: RUnlock of unlocked RWMutex", site: fr.caller.site()})
		}
		m.readers--
		return nil
	}
	if !m.locked {
		panic(targetPanic{v: iface{t: i.runtimeErrorString, v: "fatal error: sync: unlock of unlocked mutex"}, runtime: true, msg: "sync: unlock of unlocked mutex", site: fr.caller.site()})
	}
	m.locked = false
	return nil
}

func (i *interpreter) syncMap(p *value) *omap {
	if m, ok := i.syncMaps[p]; ok {
		return m
	}
	m := makeMap(types.NewInterfaceType(nil, nil))
	i.syncMaps[p] = m
	return m
}

// ---------------------------------------------------------------------
// fmt model

// fmtArgCells renders one operand for a verb; exact for strings and (zero-padded) hex of
// symbolic integers, native fmt for concrete scalars, one opaque cell otherwise.
func (fr *frame) fmtArgCells(verb byte, flags string, width int, arg value) []value {
	a, ok := arg.(iface)
	if !ok {
		return []value{opaque{}}
	}
	if a.t == nil {
		return strCells("<nil>")
	}
	v := a.v
	// error / Stringer: call the method through the interpreter
	if verb == 'v' || verb == 's' {
		if _, isBasic := a.t.Underlying().(*types.Basic); !isBasic {
			for _, mname := range []string{"Error", "String"} {
				ms := fr.i.prog.MethodSets.MethodSet(a.t)
				for k := 0; k < ms.Len(); k++ {
					sel := ms.At(k)
					if sel.Obj().Name() == mname {
						sig := sel.Type().(*types.Signature)
						if sig.Params().Len() == 0 && sig.Results().Len() == 1 && isStringType(sig.Results().At(0).Type()) {
							if f := fr.i.prog.MethodValue(sel); f != nil {
								r := fr.i.call(fr, token.NoPos, f, []value{v})
								return strCells(r)
							}
						}
					}
				}
			}
		}
	}
	switch x := v.(type) {
	case string:
		if verb == 's' || verb == 'v' {
			return strCells(x)
		}
		return strCells(fmt.Sprintf("%"+flags+widthStr(width)+string(verb), x))
	case *symStr:
		if verb == 's' || verb == 'v' {
			return x.b
		}
		if verb == 'q' {
			out := []value{byte('"')}
			out = append(out, x.b...)
			return append(out, byte('"'))
		}
		return []value{opaque{}}
	case bool, int, int8, int16, int32, int64, uint, uint8, uint16, uint32, uint64, uintptr, float32, float64:
		return strCells(fmt.Sprintf("%"+flags+widthStr(width)+string(verb), x))
	case *Term:
		if x.w == 0 {
			return []value{opaque{}}
		}
		// exact hex only for the zero-padded fixed-width form (%08x, %02x: session ids, keys);
		// other numeric formatting of symbolic values is console text and stays opaque
		if (verb == 'x' || verb == 'X') && !strings.ContainsAny(flags, "#+- ") && strings.Contains(flags, "0") && width > 0 {
			return fr.hexCells(x, a.t, width, true, verb == 'X')
		}
		if verb == 'c' && x.w == 8 {
			return []value{x}
		}
		return []value{opaque{}}
	case []value:
		if verb == 's' {
			if b, ok := a.t.Underlying().(*types.Slice); ok {
				if e, ok := b.Elem().Underlying().(*types.Basic); ok && e.Kind() == types.Uint8 {
					return x
				}
			}
		}
		return []value{opaque{}}
	}
	return []value{opaque{}}
}

func widthStr(w int) string {
	if w < 0 {
		return ""
	}
	return strconv.Itoa(w)
}

// hexCells renders a symbolic integer as exactly `width` zero-padded hex digits when its
// value fits (one two-way decision); values that need more digits yield an opaque cell.
func (fr *frame) hexCells(x *Term, t types.Type, width int, zeroPad bool, upper bool) []value {
	if 4*width < x.w {
		lim := mkConst(x.w, uint64(1)<<uint(4*width))
		if !fr.truth(norm(mkCmp(OpUlt, x, lim), boolType), "fmt-hex-fits") {
			return []value{opaque{}}
		}
	}
	digits := width
	if 4*digits > x.w {
		digits = x.w / 4
	}
	var out []value
	for k := 0; k < width-digits; k++ {
		out = append(out, byte('0'))
	}
	alpha := byte('a')
	if upper {
		alpha = 'A'
	}
	for k := digits - 1; k >= 0; k-- {
		n := mkZExt(mkExtract(x, 4*k+3, 4*k), 8)
		isDigit := mkCmp(OpUlt, n, mkConst(8, 10))
		c := mkIte(isDigit, mkBin(OpAdd, n, mkConst(8, '0')), mkBin(OpAdd, n, mkConst(8, uint64(alpha-10))))
		if c.isConst() {
			out = append(out, byte(c.val))
		} else {
			out = append(out, c)
		}
	}
	return out
}

func (fr *frame) sprintf(format value, args []value) value {
	f, ok := format.(string)
	if !ok {
		fr.i.noteStub("opaque:fmt.Sprintf(symbolic format)")
		return &symStr{b: []value{opaque{}}}
	}
	var out []value
	argi := 0
	for k := 0; k < len(f); k++ {
		c := f[k]
		if c != '%' {
			out = append(out, c)
			continue
		}
		k++
		if k >= len(f) {
			out = append(out, strCells("%!(NOVERB)")...)
			break
		}
		if f[k] == '%' {
			out = append(out, byte('%'))
			continue
		}
		start := k
		for k < len(f) && strings.IndexByte("+-# 0", f[k]) >= 0 {
			k++
		}
		flags := f[start:k]
		width := -1
		ws := k
		for k < len(f) && f[k] >= '0' && f[k] <= '9' {
			k++
		}
		if k > ws {
			width, _ = strconv.Atoi(f[ws:k])
		}
		if k < len(f) && f[k] == '.' {
			// precision: fall back to native/opaque handling
			ps := k
			k++
			for k < len(f) && f[k] >= '0' && f[k] <= '9' {
				k++
			}
			flags += "" // precision is folded into the native format below
			_ = ps
			if k < len(f) && argi < len(args) {
				a, _ := args[argi].(iface)
				argi++
				switch x := a.v.(type) {
				case string, bool, int, int8, int16, int32, int64, uint, uint8, uint16, uint32, uint64, float32, float64:
					out = append(out, strCells(fmt.Sprintf("%"+f[start:k+1], x))...)
				default:
					out = append(out, opaque{})
				}
			}
			continue
		}
		if k >= len(f) {
			break
		}
		verb := f[k]
		if argi >= len(args) {
			out = append(out, strCells("%!"+string(verb)+"(MISSING)")...)
			continue
		}
		out = append(out, fr.fmtArgCells(verb, flags, width, args[argi])...)
		argi++
	}
	return mkString(out)
}

func (fr *frame) sprint(args []value, ln bool) value {
	var out []value
	for k, a := range args {
		if k > 0 && ln {
			out = append(out, byte(' '))
		}
		out = append(out, fr.fmtArgCells('v', "", -1, a)...)
	}
	if ln {
		out = append(out, byte('\n'))
	}
	return mkString(out)
}
