package main

// Path exploration: depth-first, by re-execution. A path is a vector of decisions; a
// decision is (a) a branch on a symbolic condition (including every implicit run-time
// check), (b) the concretisation of a symbolic integer, (c) a nondet_choice, (d) a
// scheduler choice. Feasibility of every direction is decided by the SMT solver.

import (
	"fmt"
	"go/token"
	"os"
	"sort"
	"strings"
	"time"

	"golang.org/x/tools/go/ssa"
)

type pathNode struct {
	kind   string   // "br", "conc", "choice"
	choice int      // option taken on this run
	alts   []int    // feasible options not yet explored
	vals   []uint64 // for "conc": feasible values (option k = vals[k])
	n      int
	unk    bool // some direction at this node was kept after unknown/timeout
}

type inputRec struct {
	Name  string `json:"name"`
	Kind  string `json:"kind"`  // u8,u16,u32,u64,i32,i64,int,bool,choice
	Value uint64 `json:"value"` // filled from the model
	term  *Term
}

type Event struct {
	Kind    string     `json:"kind"` // panic, assert, unwind, deadlock, lock-leak, budget
	Msg     string     `json:"msg"`
	Site    string     `json:"site"`
	SrcLine string     `json:"src_line,omitempty"`
	Stack   []string   `json:"stack,omitempty"`
	Inputs  []inputRec `json:"inputs"`
	Path    int        `json:"path"`
	Label   string     `json:"label,omitempty"`
	Notes   []string   `json:"notes,omitempty"`
	ModelOK bool       `json:"model_ok"`
}

type Stats struct {
	Paths          int            `json:"paths"`
	Completed      int            `json:"completed"`
	Pruned         int            `json:"pruned_assume"`
	Abandoned      int            `json:"abandoned"`
	AbandonReasons map[string]int `json:"abandon_reasons"`
	Violating      int            `json:"violating_paths"`
	Decisions      int            `json:"decisions"`
	Obligations    int            `json:"obligations"`        // run-time checks + asserts evaluated
	ObligSolver    int            `json:"obligations_solver"` // ... of which needed the solver
	ObligConst     int            `json:"obligations_const"`  // ... decided by constant folding
	Unknown        int            `json:"solver_unknown"`
	Steps          int64          `json:"ssa_instructions"`
	MaxPathSteps   int64          `json:"max_path_instructions"`
	Truncated      bool           `json:"truncated"`
	WitnessReached bool           `json:"witness_reached"`
	ConcTruncated  int            `json:"concretizations_truncated"`
	LoopCuts       int            `json:"paths_cut_by_loop_cut"`
	OpaqueCompares int            `json:"comparisons_with_opaque_text_left_open"`
}

type Explorer struct {
	i      *interpreter
	solver *Solver

	stack []pathNode
	pos   int
	pc    []*Term

	inputs  []inputRec
	symSeq  int
	chanSeq int
	absSeq  int
	notes   []string

	stats     Stats
	events    []Event
	siteSeen  map[string]int // events already reported per violation site
	assertLbl map[string]int  // label -> times discharged
	samples   []string

	maxPaths       int
	deadline       time.Time
	pathUnknown    bool
	dumpDir        string
	dumped         int
	maxDump        int
	queryTimeout   int
	witness        bool // reachability-witness mode: final assert(false)
	oblSites       map[string]int
	stubHits       map[string]int
	witnesses      [][]inputRec
	lastProgress   time.Time
	concLimit      int
	decSites       map[string]int
	abandonSamples int
	shardK         int
	shardN         int
	shardDone      bool
}

var curEx *Explorer

func newExplorer(i *interpreter, s *Solver) *Explorer {
	ex := &Explorer{i: i, solver: s, siteSeen: map[string]int{}, assertLbl: map[string]int{}, oblSites: map[string]int{}}
	ex.stats.AbandonReasons = map[string]int{}
	curEx = ex
	return ex
}

// ---------------------------------------------------------------------
// decisions

func (ex *Explorer) assertPC(t *Term) {
	if t == tTrue {
		return
	}
	ex.pc = append(ex.pc, t)
	ex.solver.assert(t)
}

// feasible asks whether pc ∧ t is satisfiable. unknown/error count as feasible-but-inconclusive.
func (ex *Explorer) feasible(t *Term) (bool, bool) {
	if t == tFalse {
		return false, false
	}
	r := ex.solver.checkWith(t)
	switch r {
	case "sat":
		return true, false
	case "unsat":
		return false, false
	}
	ex.stats.Unknown++
	return true, true
}

// branch decides a symbolic condition; returns the direction taken on this run.
func (ex *Explorer) branch(fr *frame, c *Term, why string) bool {
	if ex.i.initMode {
		panic("symbolic branch during package initialisation")
	}
	if ex.pos < len(ex.stack) {
		n := &ex.stack[ex.pos]
		ex.pos++
		if n.kind != "br" {
			panic(fmt.Sprintf("explorer: replay divergence at decision %d: recorded %s, now br (%s) at %s", ex.pos-1, n.kind, why, fr.site()))
		}
		if n.unk {
			ex.pathUnknown = true
		}
		if n.choice == 1 {
			ex.assertPC(c)
			return true
		}
		ex.assertPC(mkBNot(c))
		return false
	}
	ex.stats.Decisions++
	if ex.decSites != nil {
		ex.decSites[why+" "+fr.site()]++
	}
	// option 1 = true, option 0 = false. Explore "true" first.
	tOK, tUnk := ex.feasible(c)
	var fOK, fUnk bool
	if !tOK {
		fOK = true // pc is satisfiable, so the other direction must be
	} else {
		fOK, fUnk = ex.feasible(mkBNot(c))
	}
	n := pathNode{kind: "br", n: 2, unk: tUnk || fUnk}
	if n.unk {
		ex.pathUnknown = true
	}
	switch {
	case tOK && fOK:
		n.choice = 1
		n.alts = []int{0}
	case tOK:
		n.choice = 1
	default:
		n.choice = 0
	}
	ex.stack = append(ex.stack, n)
	ex.pos++
	if n.choice == 1 {
		ex.assertPC(c)
		return true
	}
	ex.assertPC(mkBNot(c))
	return false
}

// choice is a solver-free decision among n options (nondet_choice, scheduler).
func (ex *Explorer) choice(n int, kind string) int {
	if n <= 0 {
		panic(pathEnd{kind: "assume", msg: "choice among zero options"})
	}
	if ex.pos < len(ex.stack) {
		nd := &ex.stack[ex.pos]
		ex.pos++
		if nd.kind != kind {
			panic(fmt.Sprintf("explorer: replay divergence at decision %d: recorded %s, now %s", ex.pos-1, nd.kind, kind))
		}
		return nd.choice
	}
	ex.stats.Decisions++
	var opts []int
	for k := 0; k < n; k++ {
		opts = append(opts, k)
	}
	if kind == "choice" && ex.shardN > 1 && !ex.shardDone {
		// sharding: this worker explores only options ≡ shardK (mod shardN) of the first choice
		ex.shardDone = true
		opts = opts[:0]
		for k := 0; k < n; k++ {
			if k%ex.shardN == ex.shardK {
				opts = append(opts, k)
			}
		}
		if len(opts) == 0 {
			panic(pathEnd{kind: "assume", msg: "empty shard"})
		}
	}
	nd := pathNode{kind: kind, n: n, choice: opts[0], alts: opts[1:]}
	ex.stack = append(ex.stack, nd)
	ex.pos++
	return nd.choice
}

// concretize forks over the feasible values of t (a 64-bit term) within [lo,hi].
func (ex *Explorer) concretize(fr *frame, t *Term, lo, hi int64) int64 {
	if t.isConst() {
		return int64(t.val)
	}
	if ex.pos < len(ex.stack) {
		n := &ex.stack[ex.pos]
		ex.pos++
		if n.kind != "conc" {
			panic(fmt.Sprintf("explorer: replay divergence at decision %d: recorded %s, now conc at %s", ex.pos-1, n.kind, fr.site()))
		}
		if n.unk {
			ex.pathUnknown = true
		}
		v := n.vals[n.choice]
		ex.assertPC(mkEq(t, mkConst(t.w, v)))
		return int64(v)
	}
	ex.stats.Decisions++
	if ex.decSites != nil {
		ex.decSites["conc "+fr.site()]++
	}
	var vals []uint64
	unk := false
	const maxVals = 300
	limit := ex.concLimit // 0 = unlimited
	full := func() bool { return limit > 0 && len(vals) >= limit }
	if hi-lo <= 64 || limit > 0 {
		tries := 0
		v := lo
		for ; v <= hi && !full(); v++ {
			if limit > 0 && hi-lo > 64 && tries >= 3*limit+8 {
				break
			}
			tries++
			ok, u := ex.feasible(mkEq(t, mkConst(t.w, uint64(v))))
			if ok {
				vals = append(vals, uint64(v))
				unk = unk || u
			}
		}
		if full() && v <= hi {
			// K smallest values found; add the largest feasible value (a length field that
			// takes "everything that remains" is the other interesting extreme)
			rest := mkBAnd(mkCmp(OpSle, mkConst(t.w, uint64(v)), t), mkCmp(OpSle, t, mkConst(t.w, uint64(hi))))
			if ok, _ := ex.feasible(rest); ok {
				ex.stats.ConcTruncated++
				if hi-v <= 4096 {
					for w := hi; w >= v; w-- {
						if ok, u := ex.feasible(mkEq(t, mkConst(t.w, uint64(w)))); ok {
							vals = append(vals, uint64(w))
							unk = unk || u
							break
						}
					}
				}
			}
		}
	}
	if len(vals) == 0 && !(hi-lo <= 64) {
		// model-guided enumeration
		ex.solver.push()
		ex.solver.assert(mkBAnd(mkCmp(OpSle, mkConst(t.w, uint64(lo)), t), mkCmp(OpSle, t, mkConst(t.w, uint64(hi)))))
		for len(vals) < maxVals && !full() {
			r := ex.solver.check()
			if r == "unsat" {
				break
			}
			if r != "sat" {
				unk = true
				ex.stats.Unknown++
				break
			}
			// ask for the value through a fresh variable bound to t
			probe := mkVar(fmt.Sprintf("__probe%d", t.id), t.w)
			ex.solver.push()
			ex.solver.assert(mkEq(probe, t))
			if ex.solver.check() != "sat" {
				ex.solver.pop()
				unk = true
				break
			}
			m, err := ex.solver.values([]*Term{probe})
			ex.solver.pop()
			if err != nil {
				unk = true
				break
			}
			v := m[probe.name]
			vals = append(vals, v)
			ex.solver.assert(mkBNot(mkEq(t, mkConst(t.w, v))))
		}
		if full() {
			if r := ex.solver.check(); r != "unsat" {
				ex.stats.ConcTruncated++
			}
		}
		ex.solver.pop()
		if len(vals) >= maxVals {
			abandon("more than %d feasible values for a symbolic size/index at %s", maxVals, fr.site())
		}
		sort.Slice(vals, func(a, b int) bool { return int64(vals[a]) < int64(vals[b]) })
	}
	if len(vals) == 0 {
		if unk {
			abandon("solver could not enumerate values at %s", fr.site())
		}
		panic(pathEnd{kind: "assume", msg: "no feasible value"})
	}
	n := pathNode{kind: "conc", n: len(vals), vals: vals, choice: 0, unk: unk}
	if unk {
		ex.pathUnknown = true
	}
	for k := 1; k < len(vals); k++ {
		n.alts = append(n.alts, k)
	}
	ex.stack = append(ex.stack, n)
	ex.pos++
	ex.assertPC(mkEq(t, mkConst(t.w, vals[0])))
	return int64(vals[0])
}

// ---------------------------------------------------------------------
// inputs

func (ex *Explorer) freshInput(name, kind string, w int) *Term {
	ex.symSeq++
	t := mkVar(fmt.Sprintf("%s!%d", name, ex.symSeq), w)
	ex.inputs = append(ex.inputs, inputRec{Name: name, Kind: kind, term: t})
	return t
}

// freshInternal creates a symbol that is not a harness input (stub results etc.).
func (ex *Explorer) freshInternal(name string, w int) *Term {
	ex.symSeq++
	return mkVar(fmt.Sprintf("$%s!%d", name, ex.symSeq), w)
}

func (ex *Explorer) recordChoice(name string, v int) {
	ex.inputs = append(ex.inputs, inputRec{Name: name, Kind: "choice", Value: uint64(v)})
}

// model fills input values from the solver (pc must be satisfiable, extra asserted too).
func (ex *Explorer) model(extra *Term) ([]inputRec, bool) {
	ex.solver.push()
	defer ex.solver.pop()
	if extra != nil {
		ex.solver.assert(extra)
	}
	if ex.solver.check() != "sat" {
		return append([]inputRec(nil), ex.inputs...), false
	}
	var vars []*Term
	for _, in := range ex.inputs {
		if in.term != nil {
			vars = append(vars, in.term)
		}
	}
	m, err := ex.solver.values(vars)
	out := make([]inputRec, len(ex.inputs))
	copy(out, ex.inputs)
	if err != nil {
		return out, false
	}
	for k := range out {
		if out[k].term != nil {
			out[k].Value = m[out[k].term.name]
		}
	}
	return out, true
}

// ---------------------------------------------------------------------
// running

type runConfig struct {
	entry     *ssa.Function
	maxPaths  int
	timeLimit time.Duration
	witness   bool
}

// violation records an event with a model.
func (ex *Explorer) violation(kind, msg, site, label string, stack []string, extra *Term) {
	key := kind + "|" + site + "|" + label
	ex.stats.Violating++
	// up to three counterexamples per obligation site (different paths): a model of an
	// uninterpreted stub may not be realisable natively, another path's model may be
	if ex.siteSeen[key] >= 3 {
		return
	}
	ex.siteSeen[key]++
	ins, ok := ex.model(extra)
	ev := Event{Kind: kind, Msg: msg, Site: site, Label: label, Stack: stack, Inputs: ins, Path: ex.stats.Paths, ModelOK: ok,
		Notes: append([]string(nil), ex.notes...)}
	ev.SrcLine = ex.i.srcLine(site)
	ex.events = append(ex.events, ev)
}

func (ex *Explorer) explore(cfg runConfig) {
	i := ex.i
	ex.maxPaths = cfg.maxPaths
	if cfg.timeLimit > 0 {
		ex.deadline = time.Now().Add(cfg.timeLimit)
	}
	ex.witness = cfg.witness
	ex.stack = nil
	for {
		if ex.maxPaths > 0 && ex.stats.Paths >= ex.maxPaths {
			ex.stats.Truncated = true
			break
		}
		if !ex.deadline.IsZero() && time.Now().After(ex.deadline) {
			ex.stats.Truncated = true
			break
		}
		ex.runOnePath(cfg.entry)
		if os.Getenv("GOSX_PROGRESS") != "" && time.Since(ex.lastProgress) > 10*time.Second {
			ex.lastProgress = time.Now()
			fmt.Fprintf(os.Stderr, "gosx[%d/%d]: paths=%d completed=%d abandoned=%d events=%d depth=%d queries=%d solver=%.0fs\n", ex.shardK, ex.shardN,
				ex.stats.Paths, ex.stats.Completed, ex.stats.Abandoned, len(ex.events), len(ex.stack), ex.solver.Queries, ex.solver.Time.Seconds())
		}
		// backtrack
		for len(ex.stack) > 0 && len(ex.stack[len(ex.stack)-1].alts) == 0 {
			ex.stack = ex.stack[:len(ex.stack)-1]
		}
		if len(ex.stack) == 0 {
			break
		}
		top := &ex.stack[len(ex.stack)-1]
		top.choice = top.alts[0]
		top.alts = top.alts[1:]
	}
	ex.stats.Steps = i.steps
}

func (ex *Explorer) runOnePath(entry *ssa.Function) {
	i := ex.i
	ex.stats.Paths++
	ex.pos = 0
	ex.pc = ex.pc[:0]
	ex.inputs = ex.inputs[:0]
	ex.notes = ex.notes[:0]
	ex.symSeq = 0
	ex.chanSeq = 0
	ex.absSeq = 0
	ex.pathUnknown = false
	ex.solver.reset()
	i.undoOn = true
	i.goCalls = i.goCalls[:0]
	i.mutexes = map[*value]*mutexState{}
	i.onces = map[*value]bool{}
	startSteps := i.steps
	i.maxSteps = i.steps + i.pathBudget()
	if i.sched != nil {
		i.sched.reset()
	}

	outcome := "completed"
	func() {
		defer func() {
			r := recover()
			if r == nil {
				return
			}
			switch p := r.(type) {
			case targetPanic:
				outcome = "violation"
				msg := p.String()
				kind := "panic"
				ex.violation(kind, msg, p.site, "", nil, nil)
			case pathEnd:
				switch p.kind {
				case "assume":
					outcome = "pruned"
				case "abandon":
					outcome = "abandoned"
					ex.stats.AbandonReasons[trimReason(p.msg)]++
					if ex.abandonSamples < 5 {
						ex.abandonSamples++
						ex.samples = append(ex.samples, "abandoned: "+p.msg+" @ "+p.site)
					}
				case "assert":
					outcome = "violation"
				case "witness":
					outcome = "completed"
					ex.stats.WitnessReached = true
				case "unwind", "budget", "deadlock", "lock-leak":
					outcome = "violation"
					ex.violation(p.kind, p.msg, p.site, "", nil, nil)
				default:
					panic(r)
				}
			case engineError:
				outcome = "abandoned"
				reason := fmt.Sprintf("engine error: %v", p.v)
				ex.stats.AbandonReasons[trimReason(reason)]++
				if len(ex.samples) < 8 {
					ex.samples = append(ex.samples, reason+" @ "+p.site)
				}
				if os.Getenv("GOSX_DEBUG") != "" {
					fmt.Fprintf(os.Stderr, "ENGINE ERROR: %v\n at %s\n%s\n", p.v, p.site, p.stack)
				}
			default:
				outcome = "abandoned"
				reason := fmt.Sprintf("engine error (top): %v", r)
				ex.stats.AbandonReasons[trimReason(reason)]++
				if os.Getenv("GOSX_DEBUG") != "" {
					fmt.Fprintf(os.Stderr, "ENGINE ERROR (top): %v\n", r)
				}
			}
		}()
		if i.sched != nil {
			i.sched.runMain(func() { i.callSSA(nil, token.NoPos, entry, nil, nil) })
		} else {
			i.callSSA(nil, token.NoPos, entry, nil, nil)
		}
		if ex.witness {
			ex.stats.WitnessReached = true
		}
	}()
	if ex.pos < len(ex.stack) {
		// the run ended before consuming the recorded prefix: only legal for ended paths
		ex.stack = ex.stack[:ex.pos]
	}
	switch outcome {
	case "completed":
		if ex.pathUnknown {
			ex.stats.Abandoned++
			ex.stats.AbandonReasons["solver unknown/timeout on this path"]++
		} else {
			ex.stats.Completed++
			if len(ex.witnesses) < 3 || (ex.stats.Completed%97 == 0 && len(ex.witnesses) < 6) {
				if ins, ok := ex.model(nil); ok {
					ex.samples = append(ex.samples, "completed path: "+fmtInputs(ins))
					ex.witnesses = append(ex.witnesses, ins)
				}
			}
		}
	case "pruned":
		ex.stats.Pruned++
	case "abandoned":
		ex.stats.Abandoned++
	}
	if d := i.steps - startSteps; d > ex.stats.MaxPathSteps {
		ex.stats.MaxPathSteps = d
	}
	i.undoOn = false
	i.rollback()
}

func trimReason(s string) string {
	if k := strings.Index(s, " at "); k > 0 && k > 40 {
		s = s[:k]
	}
	if len(s) > 160 {
		s = s[:160]
	}
	return s
}

func fmtInputs(ins []inputRec) string {
	var sb strings.Builder
	for k, in := range ins {
		if k > 0 {
			sb.WriteString(" ")
		}
		if k > 48 {
			sb.WriteString("…")
			break
		}
		fmt.Fprintf(&sb, "%s=%#x", in.Name, in.Value)
	}
	return sb.String()
}

func (i *interpreter) pathBudget() int64 {
	if i.maxSteps0 > 0 {
		return i.maxSteps0
	}
	return 20_000_000
}

// srcLine returns the trimmed source text of a "fn@file:line" site.
func (i *interpreter) srcLine(site string) string {
	k := strings.LastIndex(site, "@")
	if k < 0 {
		return ""
	}
	loc := site[k+1:]
	c := strings.LastIndex(loc, ":")
	if c < 0 {
		return ""
	}
	file := loc[:c]
	var line int
	fmt.Sscanf(loc[c+1:], "%d", &line)
	return i.readSrcLine(file, line)
}
