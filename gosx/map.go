package main

// Insertion-ordered maps with Term-aware key equality. Iteration order is insertion
// order (Go's randomised order is not explored; stated in the evidence).

import (
	"go/types"
)

type omap struct {
	keyType types.Type
	keys    []value
	vals    []value
	index   map[interface{}]int // concrete basic keys -> position
	dead    int                 // number of tombstones (nil key slots are not used; we compact on delete)
}

func makeMap(kt types.Type) *omap {
	return &omap{keyType: kt, index: map[interface{}]int{}}
}

func basicKey(k value) (interface{}, bool) {
	switch k.(type) {
	case bool, int, int8, int16, int32, int64, uint, uint8, uint16, uint32, uint64, uintptr, float32, float64, string, *value:
		return k, true
	}
	return nil, false
}

func (m *omap) len() int {
	if m == nil {
		return 0
	}
	return len(m.keys)
}

// find returns the position of key k, or -1. Symbolic comparisons fork through fr.
func (m *omap) find(fr *frame, k value) int {
	if m == nil {
		return -1
	}
	if bk, ok := basicKey(k); ok {
		if pos, ok := m.index[bk]; ok {
			return pos
		}
		// symbolic keys already in the map may still be equal to k
		if len(m.index) == len(m.keys) {
			return -1
		}
		for i, mk := range m.keys {
			if _, isb := basicKey(mk); isb {
				continue
			}
			if fr.truth(symEquals(fr, m.keyType, mk, k), "map-key") {
				return i
			}
		}
		return -1
	}
	for i, mk := range m.keys {
		if fr.truth(symEquals(fr, m.keyType, mk, k), "map-key") {
			return i
		}
	}
	return -1
}

func (m *omap) lookup(fr *frame, k value) (value, bool) {
	pos := m.find(fr, k)
	if pos < 0 {
		return nil, false
	}
	return m.vals[pos], true
}

func (m *omap) insert(fr *frame, k, v value) {
	pos := m.find(fr, k)
	i := fr.i
	if pos >= 0 {
		old := m.vals[pos]
		if i.undoOn {
			i.undo = append(i.undo, undoRec{fn: func() { m.vals[pos] = old }})
		}
		m.vals[pos] = v
		return
	}
	m.keys = append(m.keys, k)
	m.vals = append(m.vals, v)
	n := len(m.keys) - 1
	bk, isb := basicKey(k)
	if isb {
		m.index[bk] = n
	}
	if i.undoOn {
		i.undo = append(i.undo, undoRec{fn: func() {
			m.keys = m.keys[:n]
			m.vals = m.vals[:n]
			if isb {
				delete(m.index, bk)
			}
		}})
	}
}

func (m *omap) delete(fr *frame, k value) {
	pos := m.find(fr, k)
	if pos < 0 {
		return
	}
	i := fr.i
	oldKeys, oldVals := m.keys, m.vals
	nk := make([]value, 0, len(m.keys)-1)
	nv := make([]value, 0, len(m.keys)-1)
	nk = append(nk, m.keys[:pos]...)
	nk = append(nk, m.keys[pos+1:]...)
	nv = append(nv, m.vals[:pos]...)
	nv = append(nv, m.vals[pos+1:]...)
	m.keys, m.vals = nk, nv
	m.reindex()
	if i.undoOn {
		i.undo = append(i.undo, undoRec{fn: func() {
			m.keys, m.vals = oldKeys, oldVals
			m.reindex()
		}})
	}
}

func (m *omap) reindex() {
	m.index = map[interface{}]int{}
	for i, k := range m.keys {
		if bk, ok := basicKey(k); ok {
			m.index[bk] = i
		}
	}
}

type omapIter struct {
	keys []value
	vals []value
	m    *omap
	pos  int
}

func (it *omapIter) next(fr *frame) tuple {
	for it.pos < len(it.keys) {
		k := it.keys[it.pos]
		v := it.vals[it.pos]
		it.pos++
		// entries deleted during iteration are skipped (Go semantics): check still present
		if bk, ok := basicKey(k); ok {
			if _, still := it.m.index[bk]; !still {
				continue
			}
			// value may have been updated
			v = it.m.vals[it.m.index[bk]]
		}
		return tuple{true, k, v}
	}
	return tuple{false, nil, nil}
}
