package main

import (
	"bufio"
	"encoding/json"
	"flag"
	"fmt"
	"go/ast"
	"go/types"
	"os"
	"path/filepath"
	"sort"
	"strings"
	"time"

	"golang.org/x/tools/go/packages"
	"golang.org/x/tools/go/ssa"
	"golang.org/x/tools/go/ssa/ssautil"
)

type FuncInfo struct {
	Name   string `json:"name"`
	Instrs int    `json:"ssa_instrs"`
}

type Result struct {
	Entry       string         `json:"entry"`
	Shard       string         `json:"shard,omitempty"`
	Witness     bool           `json:"witness_mode"`
	Stats       Stats          `json:"stats"`
	Events      []Event        `json:"events"`
	Asserts     map[string]int `json:"asserts_discharged"`
	Solver      map[string]any `json:"solver"`
	Stubs       map[string]int `json:"stubs_hit"`
	Functions   []FuncInfo     `json:"functions_encoded"`
	Samples     []string       `json:"samples"`
	WallS       float64        `json:"wall_s"`
	LoopBound   int            `json:"loop_bound"`
	InitSkipped int            `json:"init_calls_skipped"`
	Witnesses   [][]inputRec   `json:"witnesses"`
}

var stdInit = map[string]bool{
	"errors": true, "io": true, "io/fs": true, "strconv": true, "strings": true, "bytes": true, "bufio": true,
	"unicode": true, "unicode/utf8": true, "unicode/utf16": true, "path": true, "path/filepath": true,
	"encoding/hex": true, "encoding/binary": true, "encoding/base64": true, "sort": true, "math": true,
	"math/bits": true, "internal/bytealg": true, "internal/stringslite": true, "internal/filepathlite": true,
	"internal/itoa": true, "slices": true, "cmp": true, "os": false, "syscall": false, "net": false,
	"internal/oserror": true, "internal/poll": false, "context": false, "regexp": false, "regexp/syntax": false,
	"net/http": false, "encoding/json": false, "math/big": false,
	"golang.org/x/text/encoding/unicode": false,
}

func main() {
	var (
		dir        = flag.String("dir", "/repo/teamserver", "module directory of the code under analysis")
		pkgPat     = flag.String("pkg", "", "package import path to load (the harness package)")
		overlayDir = flag.String("overlay", "", "directory with harness files; each file F is injected as <dir>/<pkg rel path>/F")
		entries    = flag.String("entry", "", "comma separated harness entry functions")
		out        = flag.String("out", "", "result JSON file (default stdout)")
		maxPaths   = flag.Int("max-paths", 0, "stop after this many paths (0 = unlimited)")
		timeLimit  = flag.Duration("time", 0, "wall-clock limit per entry (0 = none)")
		loopBound  = flag.Int("loop-bound", 5000, "unwinding bound per loop header and activation")
		pathSteps  = flag.Int64("path-steps", 20_000_000, "SSA instruction budget per path")
		witness    = flag.Bool("witness", false, "reachability-witness mode (verif_witness() ends the path)")
		z3bin      = flag.String("solver", "z3-new", "solver binary (z3-new = z3 5.1.0, z3 = 4.8.12, cvc5)")
		qtimeout   = flag.Int("qtimeout", 10000, "per-query timeout in ms")
		dump       = flag.String("dump", "", "directory for standalone .smt2 copies of verdict queries")
		maxDump    = flag.Int("max-dump", 50, "max dumped queries per entry")
		shard      = flag.String("shard", "", "k/n: explore only options ≡ k (mod n) of the first nondet_choice")
		trace      = flag.Bool("trace", false, "trace executed SSA instructions")
		extraInit  = flag.String("init", "", "comma separated extra packages whose init may run")
		concLimit  = flag.Int("conc-limit", 0, "explore only the K smallest feasible values of each symbolic size/offset (0 = all)")
		loopCut    = flag.String("loop-cut", "", "Func=N: prune paths that visit a block of a function whose name contains Func more than N times in one activation")
		tags       = flag.String("tags", "", "comma separated tags enabling //verif:stub-if <tag> directives")
		switches   = flag.Int("switches", 2, "maximum voluntary context switches per run in verif_par harnesses")
		tier       = flag.String("tier", "quick", "quick or thorough (selects verif_bound values)")
		list       = flag.Bool("list", false, "list harness entry functions (H_*) and exit")
	)
	flag.Parse()
	t0 := time.Now()

	// overlay root: <root>/<path relative to the module dir>/<file>.go is injected as
	// <dir>/<relative path>/<file>.go (new harness files, or replacements of existing files)
	overlay := map[string][]byte{}
	if *overlayDir != "" {
		filepath.Walk(*overlayDir, func(p string, info os.FileInfo, err error) error {
			if err != nil || info.IsDir() || !strings.HasSuffix(p, ".go") || strings.HasSuffix(p, "_test.go") {
				return nil
			}
			rel, _ := filepath.Rel(*overlayDir, p)
			b, err := os.ReadFile(p)
			if err != nil {
				fatal("read overlay: %v", err)
			}
			overlay[filepath.Join(*dir, rel)] = b
			return nil
		})
	}
	cfg := &packages.Config{
		Mode: packages.NeedName | packages.NeedFiles | packages.NeedCompiledGoFiles | packages.NeedImports |
			packages.NeedDeps | packages.NeedTypes | packages.NeedSyntax | packages.NeedTypesInfo | packages.NeedTypesSizes,
		Dir:     *dir,
		Overlay: overlay,
		Env:     append(os.Environ(), "GOFLAGS=-mod=mod", "GOPROXY=off", "GOSUMDB=off", "GOTOOLCHAIN=local"),
	}
	pkgs, err := packages.Load(cfg, *pkgPat)
	if err != nil {
		fatal("load: %v", err)
	}
	if packages.PrintErrors(pkgs) > 0 {
		fatal("packages contain errors")
	}
	prog, spkgs := ssautil.AllPackages(pkgs, ssa.InstantiateGenerics)
	hp := spkgs[0]
	if hp != nil {
		hp.Build()
	}
	if hp == nil {
		fatal("no SSA package for %s", *pkgPat)
	}
	loadS := time.Since(t0).Seconds()

	if *list {
		var names []string
		for n, m := range hp.Members {
			if _, ok := m.(*ssa.Function); ok && strings.HasPrefix(n, "H_") {
				names = append(names, n)
			}
		}
		sort.Strings(names)
		for _, n := range names {
			fmt.Println(n)
		}
		return
	}

	// stub directives: //verif:stub <callee full name> on harness functions
	tagSet := map[string]bool{}
	for _, t := range strings.Split(*tags, ",") {
		if t != "" {
			tagSet[t] = true
		}
	}
	stubs := map[string]*ssa.Function{}
	packages.Visit(pkgs, nil, func(p *packages.Package) {
		for _, f := range p.Syntax {
			fname := p.Fset.Position(f.Pos()).Filename
			if !strings.HasPrefix(filepath.Base(fname), "zz_verif") {
				continue
			}
			sp := prog.Package(p.Types)
			for _, d := range f.Decls {
				fd, ok := d.(*ast.FuncDecl)
				if !ok || fd.Doc == nil {
					continue
				}
				for _, c := range fd.Doc.List {
					txt := strings.TrimSpace(strings.TrimPrefix(c.Text, "//"))
					if strings.HasPrefix(txt, "verif:stub-if ") {
						// conditional stub: //verif:stub-if <tag> <target>, active with -tags <tag>
						f := strings.Fields(strings.TrimPrefix(txt, "verif:stub-if "))
						if len(f) >= 2 && tagSet[f[0]] {
							txt = "verif:stub " + strings.Join(f[1:], " ")
						}
					}
					if strings.HasPrefix(txt, "verif:stub ") {
						target := strings.TrimSpace(strings.TrimPrefix(txt, "verif:stub "))
						sf := sp.Func(fd.Name.Name)
						if sf == nil {
							fatal("stub function %s not found in SSA", fd.Name.Name)
						}
						stubs[target] = sf
					}
				}
			}
		}
	})

	allowed := map[string]bool{}
	for k, v := range stdInit {
		allowed[k] = v
	}
	for _, p := range strings.Split(*extraInit, ",") {
		if p != "" {
			allowed[p] = true
		}
	}
	rtPkg := prog.ImportedPackage("runtime")
	var rtErr types.Type = types.Universe.Lookup("error").Type()
	if rtPkg != nil {
		if t := rtPkg.Type("errorString"); t != nil {
			rtErr = t.Object().Type()
		}
	}

	var results []Result
	for _, entry := range strings.Split(*entries, ",") {
		entry = strings.TrimSpace(entry)
		if entry == "" {
			continue
		}
		fn := hp.Func(entry)
		if fn == nil {
			fatal("entry %s not found in %s", entry, *pkgPat)
		}
		te := time.Now()
		// fresh interpreter per entry (globals re-initialised)
		termTable = map[string]*Term{}
		termCount = 0
		ufDecls = map[string][]int{}
		tTrue = mkBool(true)
		tFalse = mkBool(false)
		i := &interpreter{
			prog:               prog,
			globals:            map[*ssa.Global]*value{},
			sizes:              pkgs[0].TypesSizes,
			runtimeErrorString: rtErr,
			intrinsics:         map[string]intrinsic{},
			stubs:              stubs,
			harnessPkg:         hp,
			loopBound:          *loopBound,
			maxSteps0:          *pathSteps,
			trace:              *trace,
			thorough:           *tier == "thorough",
			mutexes:            map[*value]*mutexState{},
			onces:              map[*value]bool{},
			syncMaps:           map[*value]*omap{},
			funcCache:          map[string]*ssa.Function{},
			touched:            map[*ssa.Function]bool{},
			initSkipped:        map[string]int{},
			srcCache:           map[string][]string{},
			srcRoot:            *dir,
		}
		if *loopCut != "" {
			if k := strings.LastIndex(*loopCut, "="); k > 0 {
				i.loopCutFn = (*loopCut)[:k]
				fmt.Sscanf((*loopCut)[k+1:], "%d", &i.loopCutN)
			}
		}
		i.initAllowed = func(path string) bool {
			if v, ok := allowed[path]; ok {
				return v
			}
			for k, v := range allowed {
				if strings.HasSuffix(k, "/...") && v && strings.HasPrefix(path, k[:len(k)-3]) {
					return true
				}
			}
			return strings.HasPrefix(path, "Havoc/")
		}
		i.sched = &scheduler{i: i, maxSwitches: *switches}
		i.registerIntrinsics()
		solver, err := newSolver(*z3bin, *qtimeout, solverArgs(*z3bin)...)
		if err != nil {
			fatal("solver: %v", err)
		}
		ex := newExplorer(i, solver)
		ex.stubHits = map[string]int{}
		ex.maxDump = *maxDump
		ex.concLimit = *concLimit
		if *dump != "" {
			ex.dumpDir = filepath.Join(*dump, entry)
		}
		if *shard != "" {
			fmt.Sscanf(*shard, "%d/%d", &ex.shardK, &ex.shardN)
		}
		if os.Getenv("GOSX_DEBUG") != "" {
			ex.decSites = map[string]int{}
		}
		i.ex = ex
		i.maxSteps = 1 << 62
		i.initPackages([]*ssa.Package{hp})
		i.touched = map[*ssa.Function]bool{}
		i.steps = 0
		ex.explore(runConfig{entry: fn, maxPaths: *maxPaths, timeLimit: *timeLimit, witness: *witness})
		solver.close()

		res := Result{Entry: entry, Shard: *shard, Witness: *witness, Stats: ex.stats, Events: ex.events, Asserts: ex.assertLbl,
			Stubs: ex.stubHits, Samples: ex.samples, LoopBound: *loopBound, Witnesses: ex.witnesses}
		res.Solver = map[string]any{"binary": *z3bin, "queries": solver.Queries, "sat": solver.Sat, "unsat": solver.Unsat,
			"unknown": solver.Unknown, "errors": solver.Errors, "time_s": solver.Time.Seconds(), "last_error": solver.lastErr,
			"query_timeout_ms": *qtimeout}
		for f := range i.touched {
			n := 0
			for _, b := range f.Blocks {
				n += len(b.Instrs)
			}
			res.Functions = append(res.Functions, FuncInfo{Name: f.String(), Instrs: n})
		}
		sort.Slice(res.Functions, func(a, b int) bool { return res.Functions[a].Name < res.Functions[b].Name })
		for _, n := range i.initSkipped {
			res.InitSkipped += n
		}
		if res.Events == nil {
			res.Events = []Event{}
		}
		res.WallS = time.Since(te).Seconds()
		results = append(results, res)
		fmt.Fprintf(os.Stderr, "gosx: %s%s paths=%d completed=%d pruned=%d abandoned=%d violations=%d obligations=%d queries=%d solver=%.1fs wall=%.1fs (load %.1fs)\n",
			entry, shardSuffix(*shard), ex.stats.Paths, ex.stats.Completed, ex.stats.Pruned, ex.stats.Abandoned, len(ex.events), ex.stats.Obligations,
			solver.Queries, solver.Time.Seconds(), res.WallS, loadS)
		if os.Getenv("GOSX_DEBUG") != "" {
			for k, v := range ex.stats.AbandonReasons {
				fmt.Fprintf(os.Stderr, "   abandon[%d]: %s\n", v, k)
			}
			type kv struct {
				k string
				v int
			}
			var ds []kv
			for k, v := range ex.decSites {
				ds = append(ds, kv{k, v})
			}
			sort.Slice(ds, func(a, b int) bool { return ds[a].v > ds[b].v })
			for n, d := range ds {
				if n >= 12 {
					break
				}
				fmt.Fprintf(os.Stderr, "   decisions[%d]: %s\n", d.v, d.k)
			}
			for _, s := range ex.samples {
				fmt.Fprintf(os.Stderr, "   sample: %s\n", s)
			}
			for _, ev := range ex.events {
				fmt.Fprintf(os.Stderr, "   event: %s %s @ %s :: %s\n", ev.Kind, ev.Msg, ev.Site, fmtInputs(ev.Inputs))
			}
		}
	}
	var w *os.File = os.Stdout
	if *out != "" {
		f, err := os.Create(*out)
		if err != nil {
			fatal("create out: %v", err)
		}
		defer f.Close()
		w = f
	}
	bw := bufio.NewWriter(w)
	enc := json.NewEncoder(bw)
	enc.SetIndent("", " ")
	enc.Encode(results)
	bw.Flush()
}

func shardSuffix(s string) string {
	if s == "" {
		return ""
	}
	return "[" + s + "]"
}

func solverArgs(bin string) []string {
	if strings.Contains(bin, "cvc5") {
		return []string{"--incremental", "--lang=smt2", "--produce-models"}
	}
	return []string{"-in"}
}

func fatal(format string, args ...any) {
	fmt.Fprintf(os.Stderr, "gosx: "+format+"\n", args...)
	os.Exit(3)
}

func (i *interpreter) readSrcLine(file string, line int) string {
	cands := []string{file, filepath.Join(i.srcRoot, file)}
	for _, c := range cands {
		lines, ok := i.srcCache[c]
		if !ok {
			b, err := os.ReadFile(c)
			if err != nil {
				i.srcCache[c] = nil
				continue
			}
			lines = strings.Split(string(b), "\n")
			i.srcCache[c] = lines
		}
		if lines != nil && line >= 1 && line <= len(lines) {
			return strings.TrimSpace(lines[line-1])
		}
	}
	return ""
}
