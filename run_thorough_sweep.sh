#!/bin/bash
# thorough tier of every check, one after the other (development aid; not a registered command)
cd "$(dirname "$0")"
./check build >/dev/null 2>&1
for p in ${SWEEP:-C03 C04 C06 C11 C16 C19 C09 C14 C12 C05 C08 C10 C15 C07 C13 C18 C01 C02 C20 C17}; do
  s=$(date +%s)
  timeout ${SWEEP_TIMEOUT:-9000} ./check $p thorough > sweep_$p.log 2>&1
  rc=$?
  e=$(date +%s)
  echo "$p rc=$rc secs=$((e-s)) $(grep -c '^VIOLATION' sweep_$p.log) viol $(grep -c '^KNOWN-FINDING' sweep_$p.log) known $(grep -c '^INCONCLUSIVE' sweep_$p.log) inconcl :: $(grep "^$p thorough:" sweep_$p.log | tail -1)"
done
echo SWEEP-DONE
