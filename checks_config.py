# Per-property harness configuration for ./check. Bounds registered here are the ones
# that ran clean on the unchanged tree.

AGENT_WITH = ["Havoc/pkg/logr", "Havoc/pkg/common/crypt", "Havoc/pkg/common/parser", "Havoc/pkg/socks"]
SRV_WITH = ["Havoc/pkg/agent"] + AGENT_WITH

CHECKS = {
    "C01": {
        "groups": [
            {"pkg": "Havoc/pkg/agent", "with": AGENT_WITH, "entries": ["H_c01_dispatch"], "shards": 16},
            {"pkg": "Havoc/pkg/handlers", "with": ["Havoc/pkg/agent"] + AGENT_WITH, "entries": ["H_c01_request_raw"], "shards": 8},
            {"pkg": "Havoc/pkg/handlers", "with": ["Havoc/pkg/agent"] + AGENT_WITH, "entries": ["H_c04_checkin"]},
            {"pkg": "Havoc/pkg/handlers", "with": ["Havoc/pkg/agent"] + AGENT_WITH, "entries": ["H_c01_request_hdr"], "shards": 4},
            {"pkg": "Havoc/pkg/agent", "with": AGENT_WITH, "entries": ["H_c01_pivot_nested"], "shards": 2, "flags": ["-loop-bound", "600"]},
            {"pkg": "Havoc/cmd/server", "with": SRV_WITH, "entries": ["H_c01_service_lookup"]},
            {"pkg": "Havoc/pkg/agent", "with": AGENT_WITH + ["Havoc/pkg/common/parser@lazy"], "entries": ["H_c01_dispatch_lazy"], "shards": 31, "flags": ["-loop-cut", "TaskDispatch=2"]},
            {"pkg": "Havoc/pkg/agent", "with": AGENT_WITH, "entries": ["H_c01_dispatch_deep"], "shards": 64, "flags": ["-conc-limit", "2", "-time", "240s", "-loop-cut", "TaskDispatch=3"], "disabled": True},
        ],
        "bounds": "TaskDispatch raw: every command id with a case + one arbitrary other id, body of every length 0..8, all byte values; TaskDispatch lazy: every command except CHECKIN/KERBEROS on an on-demand generated input (every requested field present with arbitrary integer values, length-prefixed fields of 0,1,2,40 bytes [0,2 for FS, DEMON_INFO, INLINEEXECUTE, TOKEN, NET] of fixed content, input may end at every check, at most 2 visits of any TaskDispatch loop header, at most 40 fields); request handler: raw body 0..24 bytes and valid header + 0..14 bytes against state S (3 agents, pivot child, queue shapes incl. pivot-wrapped and operator pivot job, service on/off); nested pivot callbacks (connect with truncated registration, relayed callback 0..8 bytes); service lookup with/without Service block. Check-in through the listener handler with a task queued for the agent itself or for an agent 1-2 pivot hops below it (H_c04_checkin, also registered here).",
        "outside": "bodies longer than the bounds; field contents in the lazy harness; goroutines started by SOCKET READ (recorded, not run); gin/net/http; more than 3 agents",
        "min_completed": 5,
        "min_completed_per_entry": {"H_c01_service_lookup": 3},
    },
    "C05": {
        "groups": [
            {"pkg": "Havoc/pkg/agent", "with": AGENT_WITH, "entries": ["H_c05_gate"], "shards": 16},
            {"pkg": "Havoc/pkg/agent", "with": AGENT_WITH, "entries": ["H_c05_completed", "H_c05_final", "H_c05_cross", "H_c05_download_close"]},
            {"pkg": "Havoc/pkg/handlers", "with": ["Havoc/pkg/agent"] + AGENT_WITH, "entries": ["H_c05_handout"]},
        ],
        "bounds": "gate: every command id + one arbitrary other id, body 0..8 bytes, 0..2 outstanding ids on the receiver, the callback id outstanding on another agent; RequestCompleted: 0..4 outstanding ids (duplicates allowed); final: 11 single-package commands, body 0..12 bytes.; hand-out lifecycle through the listener (parseAgentRequest): one task with an arbitrary request id issued or not, 0..2 check-ins asking for jobs, its final callback, a replay of the same id with arbitrary values",
        "outside": "bodies beyond the bound; which callbacks are 'final' for multi-package commands",
        "min_completed": 5,
    },
    "C04": {
        "groups": [
            {"pkg": "Havoc/pkg/agent", "with": AGENT_WITH, "entries": ["H_c04_dequeue", "H_c04_history", "H_c04_chunks"], "split": True},
            {"pkg": "Havoc/pkg/agent", "with": AGENT_WITH, "entries": ["H_c04_race"], "race": True},
            {"pkg": "Havoc/pkg/handlers", "with": ["Havoc/pkg/agent"] + AGENT_WITH, "entries": ["H_c04_checkin"]},
        ],
        "bounds": "dequeue: queue of 0..4 jobs with 0..2 arguments each, byte arguments of any length up to 2^31 (abstract buffers); history: 1..5 enqueue/check-in operations on two agents; chunks: file size any value in [0, 3*30MB+1]; race: two threads, preemption at every shared load/store and mutex operation, at most 2 voluntary switches; check-in through the listener: requests of one or two packages (GET_JOB and/or a callback, either order) with one task queued or none. The task of the check-in harness is for the agent itself or for an agent 1-2 pivot hops below it.",
        "outside": "more than two threads or two voluntary context switches; service Get path",
        "min_completed": 3,
    },
    "C07": {
        "groups": [
            {"pkg": "Havoc/pkg/logr", "entries": ["H_c07_service_file", "H_c07_console_log", "H_c07_screenshot"], "split": True},
            {"pkg": "Havoc/pkg/agent", "with": AGENT_WITH, "entries": ["H_c07_download_path", "H_c07_chunks"], "split": True},
        ],
        "bounds": "file names of 1..3 components joined by / or \\ (per joint), each component one of '..', '.', '', 1..2 arbitrary non-separator bytes, or (once) 9 arbitrary non-separator bytes; crafted agent ids of 1..2 such components; chunk histories of 1..4 open/write/close steps over two file ids and one unknown id, chunks of 1..2 arbitrary bytes.; a second transfer of the same remote file (re-open after close) starts the loot file afresh (file content modelled with POSIX create/truncate/append semantics)",
        "outside": "symlinks and OS path semantics (os.* are effect recorders inside gosx, real files in the replay); names longer than the bound",
        "min_completed": 3,
    },
    "C16": {
        "groups": [
            {"pkg": "Havoc/pkg/service", "entries": ["H_c16_service_close"]},
            {"pkg": "Havoc/cmd/server", "with": SRV_WITH, "entries": ["H_c16_listener_steps", "H_c16_listener_edit"], "no_native_witness": True, "no_native_replay": True},
        ],
        "bounds": "service registry: 1..3 connections, 0..3 agent types and 0..3 listeners with arbitrary ownership, any one connection closing; built-in registry: 1..3 (thorough 1..5) add/remove operations over two names and the SMB and External kinds plus External listeners registered by a service connection (ListenerServiceExc2Add), endpoints with and without a leading slash; edit of a running HTTP listener (user agent, 0..2 headers, 0..2 URIs, target this / another / an unknown listener).",
        "outside": "HTTP listener start/stop/edit (gin engine, http.Server), ExC2 endpoints registered by a service connection (not removed on disconnect: see DESIGN.md), failed starts",
        "min_completed": 3,
    },
    "C12": {
        "groups": [
            {"pkg": "Havoc/pkg/handlers", "with": ["Havoc/pkg/agent"] + AGENT_WITH, "entries": ["H_c12_admission"], "flags": ["-tags", "c12"], "shards": 4},
            {"pkg": "Havoc/cmd/server", "with": SRV_WITH, "entries": ["H_c16_listener_edit"], "no_native_witness": True, "no_native_replay": True},
        ],
        "bounds": "URIs: none / [\"\"] / one / two / [\"\", one] configured, request URI '/'+1 arbitrary byte (thorough 2); User-Agent set/unset ('UA'+1 byte, thorough 2) and present/absent in the request; request headers: none, one required header with a 2-byte arbitrary value (may contain ':' and blanks), with ignored headers in either case; response headers: none / one / two with a 3-byte arbitrary value (may contain ':'); redirector flag; IPv4 and IPv6 peers. Listener edit (H_c16_listener_edit): redirector trust of both listeners equals the profile's after any edit.",
        "outside": "gin routing and method dispatch (POST/GET registration), net/http, TLS, the bytes of 404.html; header names are concrete",
        "min_completed": 3,
    },
    "C15": {
        "groups": [
            {"pkg": "Havoc/pkg/socks", "entries": ["H_c15_greeting", "H_c15_reply"]},
            {"pkg": "Havoc/pkg/socks", "entries": ["H_c15_request"], "shards": 13},
            {"pkg": "Havoc/pkg/agent", "with": AGENT_WITH, "entries": ["H_c15_proxy"], "shards": 5},
            {"pkg": "Havoc/pkg/agent", "with": AGENT_WITH, "entries": ["H_c15_relay", "H_c15_socks_admin", "H_c15_reader", "H_c15_portfwd"]},
            {"pkg": "Havoc/pkg/agent", "with": AGENT_WITH, "entries": ["H_c15_tables_race"], "race": True},
        ],
        "bounds": "greeting: every stream of 0..6 bytes; request: every stream of 0..12 bytes; both under every segmentation into chunks of 1, 2 or all remaining bytes; reply builder: IPv4/IPv6/domain of length 0,1,2,127,128,255; proxy handler: greeting 0..4 bytes then request 0..10 bytes (client waits for the method selection); relay: READ/CLOSE/CONNECT callbacks for an arbitrary socket id against a table of two clients, data 0..3 bytes; operator socks list/kill/clear with 0..3 proxies of 0..2 clients each; reverse port-forward callbacks OPEN / READ (client socket, data 0..3 bytes, open / not yet open / unknown id, dial may fail) / REMOVE for an arbitrary socket id against a table of two forwards; reader goroutine of one connected client run to completion over 1..3 segments of 1..3 arbitrary bytes followed by a connection reset; two-thread table harness (H_c15_tables_race) under the bounded scheduler (<=2 voluntary switches).",
        "outside": "real TCP and the listener goroutine, the reader goroutine interleaved with other threads, io.EOF busy loop of the reader, io.Copy in PortFwdRead, pipelined greeting+request, more than two threads",
        "min_completed": 3,
    },
    "C13": {
        "groups": [
            {"pkg": "Havoc/pkg/common/builder", "entries": ["H_c13_options"], "shards": 9, "no_native_witness": True, "no_native_replay": True},
            {"pkg": "Havoc/pkg/common/builder", "entries": ["H_c13_hours"], "shards": 2, "no_native_witness": True, "no_native_replay": True},
            {"pkg": "Havoc/pkg/common/builder", "entries": ["H_c13_service_name"], "no_native_witness": True, "no_native_replay": True},
            {"pkg": "Havoc/pkg/common/builder", "entries": ["H_c13_http"], "shards": 5, "no_native_witness": True, "no_native_replay": True},
        ],
        "bounds": "options: Sleep 1..2 digits, Jitter 1..3 digits, every enumerated choice of allocation/execution/sleep technique/jump gadget/proxy loading/AMSI plus one 'other' value, stack duplication and indirect syscalls on/off, SMB listener with arbitrary 64-bit kill date; working hours: H[H]:MM-H[H]:MM with arbitrary digits. HTTP listener block: method POST/post/GET/get/empty, rotation round-robin/random/unset, connect port set (2 arbitrary digits) or unset (bind port used), 1..3 hosts each with or without its own 2-digit port, an unparsable connect or host port, TLS flag, user agent with one arbitrary printable character, 0..2 headers with and without a host header, 0..2 URIs, proxy on/off, arbitrary 64-bit kill date; a second build for the same listener yields a block of the same size. Service name (service executable payloads): every name of 1..2 arbitrary bytes either makes the build fail or consists of characters the shell takes as data, and the SERVICE_NAME define carries exactly the name.",
        "outside": "IPv6 host literals, working hours inside the HTTP block (covered separately), the rest of the compiler command line (paths from the profile), Patch() of the binary, interface-name resolution, non-ASCII strings (UTF-16 encoder stubbed by its ASCII behaviour), regexp (decided by a hand-written matcher for the one pattern)",
        "min_completed": 3,
    },
    "C10": {
        "groups": [
            {"pkg": "Havoc/pkg/db", "with": ["Havoc/pkg/agent", "Havoc/pkg/logr", "Havoc/pkg/common/parser", "Havoc/pkg/socks"], "entries": ["H_c10_agent_roundtrip", "H_c10_listeners"]},
            {"pkg": "Havoc/pkg/db", "with": ["Havoc/pkg/agent", "Havoc/pkg/logr", "Havoc/pkg/common/parser", "Havoc/pkg/socks"], "entries": ["H_c10_links"], "shards": 3},
            {"pkg": "Havoc/pkg/db", "with": ["Havoc/pkg/agent", "Havoc/pkg/logr", "Havoc/pkg/common/parser", "Havoc/pkg/socks"], "entries": ["H_c10_agent_text"], "shards": 5},
            {"pkg": "Havoc/pkg/db", "with": ["Havoc/pkg/agent", "Havoc/pkg/logr", "Havoc/pkg/common/parser", "Havoc/pkg/socks"], "entries": ["H_c10_agent_life"], "shards": 3},
            {"pkg": "Havoc/pkg/db", "with": ["Havoc/pkg/agent", "Havoc/pkg/logr", "Havoc/pkg/common/parser", "Havoc/pkg/socks"], "entries": ["H_c10_crash"], "shards": 3, "no_native_replay": True},
        ],
        "bounds": "one session: id with arbitrary top byte (incl. >= 0x80000000) and fixed low 24 bits, 2-byte key and IV, metadata strings of 1..2 lower-case letters, 8..32 bit symbolic integers; insert, restart, restore, update, restart, death, restore. Metadata text: one of 5 text fields holds 1..3 arbitrary printable ASCII characters (digit-only, leading zeros, signs, blank padding), restart, compare. Links: every sequence of 1..3 add/remove operations over 3 agents (one id >= 0x80000000), restart, LinksOf/ParentOf/LinkExist against a reference relation. Listeners: every sequence of 1..3 add/remove operations over two arbitrary names of 1..2 printable characters with 2-character configuration text, restart, ListenerAll/Exist/Count. SQLite is a relational model that executes the SQL text the code really sends, with SQLite's type-affinity rules for integer-looking text and UNIQUE columns; every statement atomic and durable. Agent life: two sessions, every sequence of 1..3 (thorough 1..4) events out of {update as dead, reported dead by id, update as alive, removed}, restart. Result sets: every query opened by a finished operation is closed (model: an open one makes later writes fail with 'database is locked'; natively sql.DBStats.InUse == 0). Crash: 1..3 (thorough 1..4) operations out of {register a1/a2, death, link add/remove, listener add/remove} with the process killed before the k-th write statement (k = 0..n, every statement atomic and durable): exactly the acknowledged operations survive.",
        "outside": "kill points inside a statement and journalling (each statement is atomic in the model), real-literal-looking text (digits with '.', 'e', 'E') in numeric-affinity columns, non-ASCII text, structs.Map/json listener configuration encoding (reflection); native replay exercises real SQLite for witnesses and counterexamples",
        "min_completed": 1,
    },
    "C17": {
        "groups": [
            {"pkg": "Havoc/pkg/profile/yaotl/json", "entries": ["H_c17_json_scan"], "shards": 4, "flags": ["-init", "Havoc/pkg/profile/yaotl"]},
            {"pkg": "Havoc/pkg/profile/yaotl/json", "entries": ["H_c17_json_parse"], "shards": 8, "flags": ["-tags", "jsonparse", "-init", "Havoc/pkg/profile/yaotl,golang.org/x/text/unicode/norm,github.com/zclconf/go-cty/...,math/big,github.com/agext/levenshtein"], "no_native_witness": True, "no_native_replay": True},
            {"pkg": "Havoc/pkg/profile/yaotl/hclsyntax", "entries": ["H_c17_strlit_any"], "shards": 5},
            {"pkg": "Havoc/pkg/profile/yaotl/hclsyntax", "entries": ["H_c17_lex"], "shards": 12, "flags": ["-init", "Havoc/pkg/profile/yaotl"]},
            {"pkg": "Havoc/pkg/profile/yaotl/hclsyntax", "entries": ["H_c17_mutate"], "shards": 8, "shards_thorough": 24, "allow_abandon": ["symbolic int -> float conversion"], "flags": ["-tags", "nohint", "-init", "Havoc/pkg/profile/yaotl,golang.org/x/text/unicode/norm,github.com/zclconf/go-cty/...,math/big,github.com/agext/levenshtein"]},
            {"pkg": "Havoc/pkg/profile/yaotl/hclsyntax", "entries": ["H_c17_parse"], "shards": 16, "flags": ["-init", "Havoc/pkg/profile/yaotl,golang.org/x/text/unicode/norm,github.com/zclconf/go-cty/...,math/big,github.com/agext/levenshtein"]},
        ],
        "bounds": "JSON scanner: every byte string of length 0..3; JSON parser (json.Parse): every byte string of length 0..2 (thorough 0..3) and every single-byte mutation of a 52-byte document with strings, numbers, keywords, arrays and nested objects - returns with a body and/or diagnostics, ranges inside the input, error-free documents read as attributes and evaluate; string-literal sub-lexer (scanStringLit, quoted and unquoted): every byte string of length 0..4; native-syntax scanner (the Ragel machine of scan_tokens.go, modes normal/template/ident-only): every byte string of length 0..2 (thorough: 0..3): token order, coverage, bytes, end-of-file token, positions; the four parser entry points ParseConfig/ParseExpression/ParseTemplate/ParseTraversalAbs: every byte string of length 0..2 (3-byte inputs were tried in the thorough tier: 6 of 16 slices did not finish within 2 hours each, so they are not claimed): no panic, termination, node and diagnostic ranges inside the input, children inside parents, error-free inputs evaluate (nil context) without panicking; single-fault mutations: every byte value at every position of 2 (thorough: 6) well-formed sources of 40..60 bytes covering blocks, labels, nested blocks, lists, objects, templates with interpolation/if/for directives, heredocs (LF and CRLF), for-expressions, function calls with expansion, conditionals, splats, indexing, operators - scanner and ParseConfig with the same obligations; grapheme segmentation by contract.",
        "outside": "inputs longer than the bounds other than single-byte mutations of the listed sources; gohcl decoding of error-free input (reflection); encoding/json.Unmarshal inside the JSON parser is over-approximated (may reject any token - a string token with a syntax error at any offset 1..len, a solver variable; string escapes not decoded); did-you-mean hints in diagnostic text (stubbed: edit distance over symbolic names forks per character pair); grapheme cluster segmentation (contract stub: some prefix of 1..n bytes); number literals whose digits are symbolic reach math/big float formatting (paths abandoned and counted)",
        "min_completed": 3,
    },
    "C18": {
        "groups": [
            {"pkg": "Havoc/pkg/profile/yaotl/hclsyntax", "entries": ["H_c18_template"], "shards": 11, "flags": ["-tags", "nohint", "-init", "Havoc/pkg/profile/yaotl,golang.org/x/text/unicode/norm,github.com/zclconf/go-cty/...,math/big,github.com/agext/levenshtein"]},
            {"pkg": "Havoc/pkg/profile/yaotl/hclsyntax", "entries": ["H_c18_access"], "shards": 8, "flags": ["-tags", "nohint", "-init", "Havoc/pkg/profile/yaotl,golang.org/x/text/unicode/norm,github.com/zclconf/go-cty/...,math/big,github.com/agext/levenshtein"]},
            {"pkg": "Havoc/pkg/profile/yaotl/hclsyntax", "entries": ["H_c18_binary"], "shards": 4, "flags": ["-tags", "nohint", "-init", "Havoc/pkg/profile/yaotl,golang.org/x/text/unicode/norm,github.com/zclconf/go-cty/...,math/big,github.com/agext/levenshtein"]},
        ],
        "bounds": "binary operators: x S1 y S2 z where each operator slot is two arbitrary bytes (all 13 binary operators, either blank placement for one-character operators) over four operand environments (numbers 12,4,2; 7,7,3; number/bool/number; three booleans), as written and with redundant parentheses around the sub-expression that binds first: value prescribed by the six precedence levels, left associativity and the typing rules, or an error diagnostic for ill-typed / division by zero. Access: one arbitrary digit as a source byte in tuple index, attribute name, string key, conditional, for-expression filter, index into a parenthesised splat result, and a splat over null compared with it. Templates: arbitrary literal characters and an arbitrary two-character ASCII string variable in interpolation, strip markers (next to a literal, and separated from it by another sequence), if/else, if without else, for directive, heredoc, indented heredoc, and an indented heredoc with a line that starts with an interpolation. For-expression whose result expression fails for an element the filter excludes ([for i in [0, 1, D]: [10, 20][i] if i < 2]).",
        "outside": "expression trees beyond the listed shapes (nesting deeper than two operators, function calls, user functions, try/can), numbers other than small integers (quotients without finite binary expansion are not compared), unknown and null values, marks, for-expressions with grouping, object-for, non-ASCII text, equality across collection types; the reference semantics are transcribed from the HCL native syntax specification in the harness",
        "min_completed": 3,
    },
    "C19": {
        "groups": [
            {"pkg": "Havoc/pkg/profile/yaotl/ext/dynblock", "with": ["Havoc/pkg/profile/yaotl/hclsyntax"], "entries": ["H_c19_equiv"], "shards": 8, "flags": ["-tags", "nohint", "-init", "Havoc/pkg/profile/yaotl,golang.org/x/text/unicode/norm,github.com/zclconf/go-cty/...,math/big,github.com/agext/levenshtein"]},
            {"pkg": "Havoc/pkg/profile/yaotl/ext/dynblock", "with": ["Havoc/pkg/profile/yaotl/hclsyntax"], "entries": ["H_c19_nested_dynamic", "H_c19_equiv_gohcl"], "flags": ["-tags", "nohint", "-init", "Havoc/pkg/profile/yaotl,golang.org/x/text/unicode/norm,github.com/zclconf/go-cty/...,math/big,github.com/agext/levenshtein"]},
        ],
        "bounds": "one configuration schema (required string attribute a, optional number n = 2^64+1, repeated block b with string attribute c) with three arbitrary printable strings of one character (thorough: two characters) as the string values, with and without the required attribute, written five ways: plain native syntax; reordered with the three comment styles, odd spacing and a single-line block; JSON syntax; split over two files merged with MergeBodies; repeated blocks replaced by a dynamic block over the same values (dynblock.Expand). All five decode through hcldec.Decode to the same cty value (and that value is the intended one), and all five are valid exactly when the configuration is. Nested repeated blocks against a dynamic block inside a dynamic block, with the same and with different iterator names, arbitrary strings. The same five spellings (n = 5) through gohcl.DecodeBody into a Go struct (required string, optional int, repeated blocks): same struct, valid together.",
        "outside": "other schemas (labelled blocks, maps, sets, nested dynamic blocks, collection-typed attributes); compositions of rewrites; strings needing escapes (the two syntaxes escape differently; encoding/json.Unmarshal is a model for escape-free string tokens); hclwrite formatting as a rewrite (covered for validity under C20)",
        "min_completed": 1,
    },
    "C20": {
        "groups": [
            {"pkg": "Havoc/pkg/profile/yaotl/hclwrite", "with": ["Havoc/pkg/profile/yaotl/hclsyntax"], "entries": ["H_c20_short"], "shards": 5, "flags": ["-tags", "nohint", "-init", "Havoc/pkg/profile/yaotl,golang.org/x/text/unicode/norm,github.com/zclconf/go-cty/...,math/big,github.com/agext/levenshtein"]},
            {"pkg": "Havoc/pkg/profile/yaotl/gohcl", "with": ["Havoc/pkg/profile/yaotl/hclsyntax"], "entries": ["H_c20_encode"], "shards": 6, "shards_thorough": 9, "flags": ["-tags", "nohint", "-init", "Havoc/pkg/profile/yaotl,golang.org/x/text/unicode/norm,github.com/zclconf/go-cty/...,math/big,github.com/agext/levenshtein"]},
            {"pkg": "Havoc/pkg/profile/yaotl/hclwrite", "with": ["Havoc/pkg/profile/yaotl/hclsyntax"], "entries": ["H_c20_edit"], "shards": 8, "flags": ["-tags", "nohint", "-init", "Havoc/pkg/profile/yaotl,golang.org/x/text/unicode/norm,github.com/zclconf/go-cty/...,math/big,github.com/agext/levenshtein"]},
            {"pkg": "Havoc/pkg/profile/yaotl/hclwrite", "with": ["Havoc/pkg/profile/yaotl/hclsyntax"], "entries": ["H_c20_string_value"], "shards": 6, "shards_thorough": 22, "thorough": ["-time", "3000s"], "flags": ["-tags", "nohint", "-init", "Havoc/pkg/profile/yaotl,golang.org/x/text/unicode/norm,github.com/zclconf/go-cty/...,math/big,github.com/agext/levenshtein"]},
            {"pkg": "Havoc/pkg/profile/yaotl/hclwrite", "with": ["Havoc/pkg/profile/yaotl/hclsyntax"], "entries": ["H_c20_mutate"], "shards": 20, "allow_abandon": ["symbolic int -> float conversion"], "flags": ["-tags", "nohint", "-init", "Havoc/pkg/profile/yaotl,golang.org/x/text/unicode/norm,github.com/zclconf/go-cty/...,math/big,github.com/agext/levenshtein"]},
        ],
        "bounds": "short files: every byte string of length 0..2 (thorough 0..3) that is a syntactically valid file; mutated files: every single-byte mutation (any position, any byte value) of 4 well-formed sources of 55..75 bytes (three comment styles, labelled and nested blocks, lists, objects, templates with interpolation and if-directives, plain and indented heredocs, conditionals, splats, for-expressions, tabs and odd spacing) that is still a valid file: serialising the loaded tokens reproduces the input byte for byte (a tab between tokens comes back as a space), Format changes nothing but spaces and tabs, Format is idempotent, the formatted file is still valid. Programmatic edits: every sequence of 1..2 edits out of {set attribute a, set the last attribute c, set a new attribute n, remove a, remove c (the last item), remove an unknown attribute, append a block with a label, remove the first block} with an arbitrary 7-bit string of 0..1 (thorough 0..2) characters as value or label, on a file with a free-standing comment, a line comment, two attributes and a labelled block: the output re-parses, shows exactly those changes, keeps the values of untouched items and their comments. Writing a Go value with gohcl.EncodeIntoBody (string, number, flag, list, two labelled blocks; one of host / list element / label+password is an arbitrary 7-bit string of 0..1, thorough 0..2, characters) gives a valid file that gohcl.DecodeBody reads back to the same value. Formatting additionally keeps every attribute value that evaluates (variables bound in the harness) equal before and after. String values: a 7-bit string of 0..2 (thorough: 0..3, in 8 slices by the first character) arbitrary characters written as attribute value or block label reads back as itself through the real scanner, parser and evaluator. Rewrite sources: 5 (the fifth with comments after a closing brace and between block type and label, one-line blocks, keyword index keys). The quick tier additionally runs the 3-byte input EF BB BF (byte-order mark alone), the recorded known finding.",
        "outside": "files longer than the listed sources and multi-byte mutations; sequences of more than one edit; non-ASCII values in edits; decoding the formatted file through gohcl (reflection; hclsyntax-level values are compared); grapheme segmentation is the deterministic one-rune-per-cluster model (combining marks outside); did-you-mean hints stubbed; mutations that turn a digit of a number literal into another digit reach math/big's float-to-text conversion with a symbolic operand (those paths are abandoned, counted in the evidence and not claimed)",
        "min_completed": 3,
    },
    "C14": {
        "groups": [
            {"pkg": "Havoc/pkg/profile/yaotl/hclsyntax", "entries": ["H_c14_strlit"], "shards": 3},
            {"pkg": "Havoc/pkg/profile", "with": ["Havoc/pkg/profile/yaotl/hclsyntax"], "entries": ["H_c14_decode"], "shards": 4, "flags": ["-tags", "nohint", "-init", "Havoc/pkg/profile/yaotl,golang.org/x/text/unicode/norm,github.com/zclconf/go-cty/...,math/big,github.com/agext/levenshtein"]},
            {"pkg": "Havoc/pkg/profile", "with": ["Havoc/pkg/profile/yaotl/hclsyntax"], "entries": ["H_c14_reject"], "shards": 13, "flags": ["-tags", "nohint", "-init", "Havoc/pkg/profile/yaotl,golang.org/x/text/unicode/norm,github.com/zclconf/go-cty/...,math/big,github.com/agext/levenshtein"]},
            {"pkg": "Havoc/pkg/profile/yaotl/hclsyntax", "entries": ["H_c14_profile_string"], "shards": 6, "flags": ["-init", "Havoc/pkg/profile/yaotl,golang.org/x/text/unicode/norm,github.com/zclconf/go-cty/...,math/big,github.com/agext/levenshtein"]},
        ],
        "bounds": "string literal spelling kernel: values of 0..2 arbitrary bytes, each written raw (ASCII, where legal), as \\n \\r \\t \\\" \\\\, or as \\xHH in upper or lower case, through scanStringLit + ParseStringLiteralToken. End to end through the real scanner, parser and template evaluation (ParseConfig -> Body -> Attribute.Expr.Value / block labels): values of 0..2 (thorough 0..3) arbitrary 7-bit bytes in every accepted spelling, as a top-level attribute, as an attribute inside a labelled block after a comment and a blank line, between the escaped template markers $${ and %%{, and as a block label; a lone $ or % as last character; as a heredoc body of 1..2 (thorough 1..3) arbitrary printable characters or line breaks, plain and indented (<<-). Schema level, through the real hclsimple.Decode -> gohcl.DecodeBody -> gocty path into HavocConfig (reflection emulated by the engine): a profile with Teamserver (host with an arbitrary character, port of two arbitrary digits written as a number or as a string), two user blocks (label and password with arbitrary characters), an Smb and an Http listener (host list, flag, optional fields absent), either attribute order: every field has the configured value, absent blocks/attributes stay absent. Single-fault mutations of a valid profile (13 kinds: required string / number / nested string / list omitted, single block repeated at top level and nested, unknown attribute with an arbitrary letter, unknown block, text where a number is required, list where a string is required, missing label, extra label): rejected with an error diagnostic that has a place inside the file; the unmodified profile loads. Each fault with and without a second, faultless user block and Http listener following the faulty one.",
        "outside": "profiles beyond the listed shapes (Demon, Service, WebHook blocks, External listeners, header/URI lists with values), faults beyond the 13 listed kinds, compositions of faults; non-ASCII values; the reflection layer is the engine's emulation of package reflect (gosx/reflect.go), validated by the native replay of witnesses with the real package",
        "min_completed": 3,
    },
    "C11": {
        "groups": [
            {"pkg": "Havoc/cmd/server", "with": SRV_WITH, "entries": ["H_c11_append", "H_c11_replay", "H_c11_fanout", "H_c11_fault", "H_c11_listener_prune", "H_c11_disconnect"], "no_native_witness": True, "no_native_replay": True},
            {"pkg": "Havoc/cmd/server", "with": SRV_WITH, "entries": ["H_c11_race"], "race": True},
        ],
        "bounds": "append: 0..3 (thorough 0..8) retained events + one event with arbitrary code / one-shot flag; replay: 0..3 retained events, 0..2 agents with symbolic active flag; fan-out: 1..3 (thorough 1..5) clients, any excluded id, at most one dead transport, arbitrary event code; listener pruning: 1..4 (thorough 1..6) retained listener/chat events of 5 kinds; fault: 2..3 sends/broadcasts to two clients with a write fault possible at every write. Disconnect: login, 0..1 messages, then the transport dies with close error 1006 or another read error, closing the socket failing or not. Race: two EventAppend calls on a log holding one event, preemption at every shared load/store and mutex operation, at most 2 voluntary switches.",
        "outside": "a peer that stalls without error (needs time); websocket framing; concurrent broadcasters",
        "min_completed": 3,
    },
    "C06": {
        "groups": [
            {"pkg": "Havoc/cmd/server", "with": SRV_WITH, "entries": ["H_c06_first", "H_c06_window"], "no_native_witness": True, "no_native_replay": True},
            {"pkg": "Havoc/pkg/service", "entries": ["H_c06_service"], "no_native_witness": True, "no_native_replay": True},
            {"pkg": "Havoc/pkg/packager", "entries": ["H_c06_create_package"], "no_native_witness": True, "no_native_replay": True},
        ],
        "bounds": "first message = arbitrary Package (event/sub-event any int32; Head.User one of two operators / unknown / empty; Body.Info absent or with User/Password each absent, right string, other string, number, bool, null, object); profile with and without Operators block; one follow-up message; the digest of another operator's password. Service endpoint: first message undecodable or decoded with any of five request types and the right password / 0..2 arbitrary characters / the right password plus one character, 0..2 follow-up messages. Decoding of the first message (Packager.CreatePackage): texts of 0..200 bytes, JSON or not.",
        "outside": "gorilla/websocket, TLS, JSON decoding itself (modelled as: yields an arbitrary well-typed Package), what an authenticated service connection may then register (C16)",
        "min_completed": 3,
    },
    "C09": {
        "groups": [
            {"pkg": "Havoc/cmd/server", "with": SRV_WITH, "entries": ["H_c09_died", "H_c09_markdead"]},
            {"pkg": "Havoc/cmd/server", "with": SRV_WITH, "entries": ["H_c09_event"], "shards": 4},
        ],
        "bounds": "death: all forests over 3 agents (two of the five ids in the universe have the top bit set) plus stars/chains over 4 and 5 agents (an agent with up to 4 links), victim any of them; mark dead/alive events and pivot events (connect naming any 32-bit id with a truncated registration, disconnect, exit, kill date, arbitrary short pivot callback) from every forest over 3 agents. The dying / marked agent is active or was reported inactive before (as a pivot disconnect leaves it).",
        "outside": "SQLite itself (TS_Links is a set-of-pairs model of the statements in pkg/db/links.go); more than 3 agents",
        "min_completed": 3,
    },
    "C02": {
        "groups": [
            {"pkg": "Havoc/pkg/agent", "with": ["Havoc/pkg/logr", "Havoc/pkg/common/parser", "Havoc/pkg/socks"], "entries": ["H_c02_build"], "flags": ["-tags", "uf_aes"], "shards": 2},
            {"pkg": "Havoc/pkg/agent", "with": ["Havoc/pkg/logr", "Havoc/pkg/common/parser", "Havoc/pkg/socks"], "entries": ["H_c02_prepare"], "flags": ["-tags", "uf_aes"], "shards": 10},
            {"pkg": "Havoc/pkg/agent", "with": ["Havoc/pkg/logr", "Havoc/pkg/common/parser", "Havoc/pkg/socks"], "entries": ["H_c02_fs", "H_c02_proc"], "flags": ["-tags", "uf_aes,c02fs"], "split": True, "no_native_witness": True, "no_native_replay": True},
            {"pkg": "Havoc/pkg/agent", "with": ["Havoc/pkg/logr", "Havoc/pkg/common/parser", "Havoc/pkg/socks"], "entries": ["H_c02_token"], "flags": ["-tags", "uf_aes"], "shards": 9},
            {"pkg": "Havoc/pkg/common", "entries": ["H_c02_encode_utf16"], "flags": ["-init", "golang.org/x/text/..."]},
        ],
        "bounds": "framing: one task with 0..2 arguments, or two tasks with 0..1 arguments each (thorough: 0..2), of the 11 supported Go types (strings/byte slices of 0..2 arbitrary bytes), arbitrary command and request ids, AES-CTR as uninterpreted key stream; TaskPrepare: EXIT, SLEEP (1..2 digit delay/jitter), JOB (4 sub-commands, 1..2 digit id), TRANSFER (4 sub-commands, any 8-hex-digit file id), PROC kill/modules (1..3 digit pid), PROC_LIST, PPIDSPOOF, PIVOT list/disconnect (any 8-hex-digit id); task id any 8 hex digits (EXIT) or fixed; file-system commands cd / remove / mkdir / pwd / dir (console form: four flags, three filters) / dir (explorer form) with a drive prefix and two arbitrary printable path characters, compared field by field with the read order of the Demon's CommandFS.",
        "outside": "all other commands and sub-commands (file/BOF/assembly based, NET, token make/find, CONFIG, KERBEROS, socks, the base64-carried FS sub-commands download/upload/cp/mv/cat), UNC paths, non-ASCII and long parameter strings, batches of more than 2 tasks",
        "min_completed": 3,
    },
    "C08": {
        "groups": [
            {"pkg": "Havoc/pkg/agent", "with": ["Havoc/pkg/logr", "Havoc/pkg/common/parser", "Havoc/pkg/socks"], "entries": ["H_c08_chain"], "flags": ["-tags", "uf_aes"], "shards": 3, "shards_thorough": 4},
            {"pkg": "Havoc/pkg/agent", "with": ["Havoc/pkg/logr", "Havoc/pkg/common/parser", "Havoc/pkg/socks"], "entries": ["H_c08_relay"], "flags": ["-tags", "uf_aes", "-time", "300s"]},
            {"pkg": "Havoc/pkg/agent", "with": ["Havoc/pkg/logr", "Havoc/pkg/common/parser", "Havoc/pkg/socks"], "entries": ["H_c08_tomap", "H_c08_memfile"], "flags": ["-tags", "uf_aes"]},
        ],
        "bounds": "chains of 1..3 SMB hops below a direct agent; every agent id with an arbitrary top byte (ids >= 0x80000000 included) and fixed distinct low 24 bits; task = arbitrary command / request id / int argument / byte argument of 0..2 bytes; AES-CTR as uninterpreted per-key stream. ToMap: pivot agent 1..2 hops down, parent active or reported inactive (structs.Map modelled by the keys ToMap touches). Memory file: 0..2 arbitrary bytes shipped to an agent 1..2 hops down, then a task.",
        "outside": "depth > 3 (thorough: > 4); fully arbitrary ids (thorough tier: target id fully symbolic for one-hop chains); upward relay is covered by C05/C01 harnesses with AES as identity",
        "min_completed": 3,
    },
    "C03": {
        "groups": [
            {"pkg": "Havoc/pkg/common/parser", "entries": ["H_c03_int", "H_c03_bytes", "H_c03_field_sequence"]},
            {"pkg": "Havoc/pkg/common/parser", "entries": ["H_c03_canread"], "shards": 8},
            {"pkg": "Havoc/pkg/common", "entries": ["H_c03_utf16", "H_c03_stripnull"]},
            {"pkg": "Havoc/pkg/agent", "with": AGENT_WITH, "entries": ["H_c03_register"], "shards": 3},
            {"pkg": "Havoc/pkg/agent", "with": AGENT_WITH, "entries": ["H_c03_identity"]},
            {"pkg": "Havoc/cmd/server", "with": SRV_WITH, "entries": ["H_c03_session_lookup"]},
        ],
        "bounds": "ParseInt32/64/Bool/Pointer: buffer length 0..16 (thorough 0..24), all byte values; ParseBytes: length 0..14 (thorough 0..22); CanIRead: 0..3 fields of the 5 kinds over 0..16 (thorough 0..22) bytes; session lookup: 1..3 sessions alive or dead, any 32-bit id. Field sequence: a length-prefixed field of 0..4 (thorough 0..6) arbitrary bytes read as bytes, text or UTF-16 text, followed by 8 arbitrary bytes read as a 32- or 64-bit field; the packet buffer is compared before and after.",
        "outside": "longer buffers; console text formatting",
        "min_completed": 5,
    },
}


LEVELS = {
    "C01": {"text": "Bounded symbolic model checking of the implementation: every feasible path of TaskDispatch / the request handlers for all byte values within the stated length bounds is executed over SMT terms; every Go run-time check is an obligation decided by z3. Holds = no feasible panic, unbounded loop or leaked lock within the bounds; says nothing beyond them.",
            "note": "Trusted: go/ssa, gosx, z3, stub contracts (AES-CTR as identity involution, os/net effect recorders, opaque formatting). Bounds in evidence."},
    "C05": {"text": "Bounded symbolic execution of the real TaskDispatch gate for every command id with symbolic request ids and bodies against an effect recorder; the negative statement (nothing happens for a non-outstanding id) is decided by the solver for all ids and bodies in the bound.",
            "note": "Trusted: go/ssa, gosx, z3; recorder TeamServer, os/net effect stubs; single-package command table transcribed from Command.c."},
    "C07": {"text": "Bounded symbolic execution of DownloadAdd/Write/Close and the logr writers with the real path/filepath.Clean and strings code over symbolic path components; every os call is recorded and the containment oracle re-cleans the recorded path; counterexamples are replayed on a real temp loot tree.",
            "note": "os.* = effect recorder with the documented contracts; loot root fixed; names beyond the bound outside."},
    "C16": {"text": "Bounded symbolic execution of service.ClientClose from every small ownership configuration; position of the closing connection and ownership vectors are decided exhaustively through the engine; and of the real ListenerStart/ListenerRemove over sequences of 1..3 add/remove steps with the invariant running = persisted = advertised, unique names, no endpoint outliving its listener.",
            "note": "Third-party service registry (ClientClose) and the built-in listener registry for SMB and External listeners (ListenerStart/ListenerRemove with the DB and the advertised set as models); HTTP listener sockets are outside (ListenerEdit is executed on listener objects that were not started)."},
    "C12": {"text": "Bounded symbolic execution of the real (*HTTP).request with real net/http header canonicalisation and strings code over symbolic header/URI/user-agent values; the protocol layer is a recorder, so 'reached' is observed exactly.",
            "note": "gin.Context is built directly (no router); parseAgentRequest stubbed as recorder inside gosx."},
    "C15": {"technique_suffix": "; two-thread interleavings of the socket/proxy/forward table operations explored by a bounded scheduler (<= 2 voluntary switches)",
            "text": "Bounded symbolic execution of the real SOCKS negotiation/request parsing (with the real bufio.Reader), the proxy connection handler and the COMMAND_SOCKET callbacks against a reference RFC 1928 parser; the client's byte stream and its TCP segmentation are symbolic.",
            "note": "net.Conn is a scripted in-memory connection (same code natively); the reader goroutine of a client is run to completion after the handler (not interleaved); table operations of two threads run under the bounded scheduler."},
    "C13": {"text": "Bounded symbolic execution of the real Builder.PatchConfig and ParseWorkingHours against a reference reader transcribed from Demon.c DemonConfig(); every enumerated option and symbolic digits/integers; a crossed assignment of one option shows as a field mismatch.",
            "note": "UTF-16 encoder and regexp are stubs stated in the harness; no native replay (the stubs stand for x/text and regexp)."},
    "C10": {"text": "Bounded symbolic execution of the real pkg/db code (AgentAdd/AgentUpdate/AgentAll, LinkAdd/LinkRemove/LinksOf/ParentOf/LinkExist, ListenerAdd/Remove/All/Exist/Count, and init()'s CREATE TABLE statements) over operation sequences and symbolic ids/text, with database/sql replaced by a relational model that executes the SQL text the code really sends under SQLite's affinity and UNIQUE rules; a restart is a new handle on the same tables; counterexamples and witnesses are replayed on real SQLite.",
            "note": "Kill points inside a statement and journalling are outside (statements are atomic in the model); base64 is an injective model that distinguishes alphabets; listener configuration encoding (structs.Map/json) is outside."},
    "C17": {"text": "Bounded symbolic execution of the real scanners and parsers: the JSON scanner, the string-literal sub-lexer, the Ragel-generated native-syntax scanner, the four hclsyntax entry points and the JSON syntax parser over every byte string up to the bound, plus every single-byte mutation of a set of well-formed sources; totality (no panic, loop bound), token losslessness, range containment and evaluation of error-free inputs are assertions decided by the solver for every input in the bound.",
            "note": "Grapheme segmentation is a contract stub; did-you-mean hints are stubbed; encoding/json inside the JSON parser is over-approximated; gohcl decoding is outside."},
    "C14": {"text": "Bounded symbolic execution of the real profile loading path - scanner, parser, template evaluation, gohcl schema derivation and decoding, gocty conversion - into the real HavocConfig type, with the engine emulating package reflect over go/types; string contents, port digits, spellings and the kind of single fault are symbolic or enumerated by the solver-explored choices; loaded values are compared with the intended configuration and every faulty profile must yield a placed error diagnostic.",
            "note": "Profile shapes and the 13 fault kinds are fixed in the harness; reflection is emulated (Type/Value subset used by gohcl and gocty), completed symbolic paths are replayed natively with the real reflect package."},
    "C11": {"text": "Bounded symbolic execution of the real event log / replay / fan-out / SendEvent code with the websocket write as a fault-injecting recorder; the fault sequence is a symbolic variable, and a mutex left held after any send is reported by the engine's lock model.",
            "technique_suffix": "; two recorders of events at the same time explored by a bounded scheduler (<= 2 voluntary switches), confirmed natively under the Go race detector",
            "note": "websocket, JSON encoder and DB are stubs; apart from H_c11_race (two concurrent EventAppend calls) single-threaded: a recorder racing with the replay to a new operator is outside."},
    "C06": {"text": "Bounded symbolic execution of the real handleRequest/ClientAuthenticate/EventBroadcast decision logic over an arbitrary first Package (the image of json.Unmarshal), with SHA3 as an injective digest.",
            "note": "The JSON decoder is modelled by its result type; sockets and timing are outside; the service endpoint's handshake (authenticate/handleConnection/routine) is executed with the websocket as a script."},
    "C09": {"text": "Bounded symbolic execution of the real link bookkeeping (cmd/server Died/UnlinkFromAll/LinkAdd/LinkRemove, TaskDispatch SMB connect/disconnect) from every forest over a 3-agent universe; the forest invariant relating parent pointers, link lists and link rows is asserted after one event (inductive step).",
            "note": "Database = relational model of the four SQL statements in pkg/db/links.go; websocket/JSON stubbed."},
    "C02": {"text": "Bounded symbolic execution of the real BuildPayloadMessage and of TaskPrepare -> queue -> check-in reply for a stated subset of commands against a reference reader that mirrors Parser.c/Command.c; parameter digits, ids, argument values and types are symbolic; encryption is an uninterpreted key stream so a body sent in clear is a counterexample.",
            "note": "Covers the framing layer fully within the bound and 28 command forms (UTF-16 encoding of ASCII text is a harness model in the FS harness); the remaining commands are outside. Reference read order transcribed from Command.c (DESIGN.md appendix A)."},
    "C08": {"text": "Bounded symbolic execution of the real PivotAddJob/BuildPayloadMessage wrapping for chains of 1..3 hops, unwrapped by a reference implementation of the Demon's pipe framing with each hop's own key; AES-CTR is an uninterpreted key stream so a layer encrypted under the wrong key cannot decode.",
            "note": "Trusted: go/ssa, gosx, z3 (QF_UFBV), the reference decoder transcribed from Command.c/TransportSmb.c."},
    "C04": {"text": "Bounded symbolic execution of GetQueuedJobs/AddJobToQueue/UploadMemFileInChunks against a FIFO reference; sizes are symbolic so the 30 MB boundary and chunk boundaries are decided by the solver, not sampled.",
            "technique_suffix": "; two-thread interleavings explored by a bounded scheduler whose context switches are path decisions (<= 2 voluntary switches), confirmed natively under the Go race detector",
            "note": "Sequential histories, plus two concurrent threads (enqueue against check-in, enqueue against enqueue) under the bounded scheduler with at most two voluntary context switches; the lost update on the formerly unlocked queue was found here and repaired (fix: commit 5a580c6); witnesses run natively under the race detector."},
    "C18": {"text": "Partial: bounded symbolic execution of the real scanner, parser and evaluator (hclsyntax expression*.go with the cty operator and conversion functions) on expression and template sources whose operator, selector and literal bytes are symbolic; the value (or the presence of an error diagnostic) is compared with reference semantics transcribed from the language specification; the solver decides the comparison for every byte value in the bound.",
            "note": "Shapes are fixed (two binary operators over three operands; one selector; seven template forms); operands are concrete small numbers/booleans because cty numbers are big.Float; see bounds for what is outside."},
    "C19": {"text": "Partial: bounded symbolic execution of the real native parser, JSON parser, body merging, dynamic-block expansion and both decoders (hcldec, gohcl) on five spellings of one configuration whose string contents are symbolic; equality of the decoded values and of validity across the spellings is asserted and decided by the solver for every content in the bound.",
            "note": "One schema, one configuration shape; gohcl runs on the engine's emulation of package reflect; encoding/json.Unmarshal is a harness model for escape-free string tokens and number tokens."},
    "C20": {"text": "Bounded symbolic execution of the real hclwrite code (ParseConfig, token building and serialisation, Format, Body.SetAttributeValue/RemoveAttribute/AppendNewBlock/RemoveBlock, TokensForValue with its escaping) on top of the real scanner and parser: the input text (or the edit's value) carries symbolic bytes, the round-trip, formatter and edit statements of C20 are assertions decided for every value in the bound, and the output is re-parsed by the real hclsyntax parser inside the same run.",
            "note": "Partial: single-byte mutations of a fixed set of sources plus all short strings; one edit per run; decoding of the formatted file is outside (reflection)."},
    "C03": {"text": "Bounded symbolic execution of pkg/common/parser and the registration path against a reference encoder mirroring Package.c; all byte values for every buffer length in the bound, so every residue of trailing bytes is covered.",
            "note": "Trusted: go/ssa, gosx, z3, the hand-written big-endian reference in the harness. Console text formatting is outside."},
}

NOT_APPLICABLE = {
}
for _p in ["C02","C04","C05","C06","C07","C08","C09","C10","C11","C12","C13","C14","C15","C16","C17"]:
    if _p not in CHECKS:
        NOT_APPLICABLE[_p] = "check not built yet in this revision (planned, see DESIGN.md §2 " + _p + ")"
