# Per-property harness configuration for ./check. Bounds registered here are the ones
# that ran clean on the unchanged tree.

AGENT_WITH = ["Havoc/pkg/logr", "Havoc/pkg/common/crypt"]

CHECKS = {
    "C01": {
        "groups": [
            {"pkg": "Havoc/pkg/agent", "with": AGENT_WITH, "entries": ["H_c01_dispatch"], "shards": 16},
            {"pkg": "Havoc/pkg/handlers", "with": ["Havoc/pkg/agent"] + AGENT_WITH, "entries": ["H_c01_request_raw"], "shards": 8},
            {"pkg": "Havoc/pkg/handlers", "with": ["Havoc/pkg/agent"] + AGENT_WITH, "entries": ["H_c01_request_hdr"], "shards": 4},
            {"pkg": "Havoc/pkg/agent", "with": AGENT_WITH, "entries": ["H_c01_dispatch_deep"], "shards": 64, "flags": ["-conc-limit", "2", "-time", "240s"], "disabled": True},
        ],
        "bounds": "TaskDispatch: every command id with a case + one arbitrary other id; body 0..24 arbitrary bytes; state S (3 agents, pivot child, open socket/portfwd).",
        "outside": "bodies longer than the bound; goroutines started by SOCKET READ; gin/net/http",
        "min_completed": 5,
    },
    "C03": {
        "groups": [
            {"pkg": "Havoc/pkg/common/parser", "entries": ["H_c03_int", "H_c03_bytes"]},
            {"pkg": "Havoc/pkg/common/parser", "entries": ["H_c03_canread"], "shards": 8},
            {"pkg": "Havoc/pkg/common", "entries": ["H_c03_utf16", "H_c03_stripnull"]},
            {"pkg": "Havoc/pkg/agent", "with": AGENT_WITH, "entries": ["H_c03_register"], "shards": 3},
            {"pkg": "Havoc/pkg/agent", "with": AGENT_WITH, "entries": ["H_c03_identity"]},
        ],
        "bounds": "ParseInt32/64/Bool/Pointer: buffer length 0..16, all byte values; ParseBytes: length 0..14; CanIRead: 0..3 fields of the 5 kinds over 0..16 bytes.",
        "outside": "longer buffers; console text formatting",
        "min_completed": 5,
    },
}


LEVELS = {
    "C01": {"text": "Bounded symbolic model checking of the implementation: every feasible path of TaskDispatch / the request handlers for all byte values within the stated length bounds is executed over SMT terms; every Go run-time check is an obligation decided by z3. Holds = no feasible panic, unbounded loop or leaked lock within the bounds; says nothing beyond them.",
            "note": "Trusted: go/ssa, gosx, z3, stub contracts (AES-CTR as identity involution, os/net effect recorders, opaque formatting). Bounds in evidence."},
    "C03": {"text": "Bounded symbolic execution of pkg/common/parser and the registration path against a reference encoder mirroring Package.c; all byte values for every buffer length in the bound, so every residue of trailing bytes is covered.",
            "note": "Trusted: go/ssa, gosx, z3, the hand-written big-endian reference in the harness. Console text formatting is outside."},
}

NOT_APPLICABLE = {
    "C18": "expression evaluation is cty/big.Float arithmetic and reflection-built function tables over unbounded expression trees; not encodable as QF_BV within reach, and a second evaluator compared on enumerated programs would not be a solver-decided check (DESIGN.md §C18)",
    "C19": "relates two reflection/cty based decoder stacks across two syntaxes; no leaf kernel carries the property (DESIGN.md §C19)",
    "C20": "byte-exact round trip / formatter idempotence over source texts through the 5k-line generated lexer; path-based symbolic execution reaches only ~3 input bytes there and a token-level harness would quantify over token sequences no source produces (DESIGN.md §C20)",
}
for _p in ["C02","C04","C05","C06","C07","C08","C09","C10","C11","C12","C13","C14","C15","C16","C17"]:
    if _p not in CHECKS:
        NOT_APPLICABLE[_p] = "check not built yet in this revision (planned, see DESIGN.md §2 " + _p + ")"
