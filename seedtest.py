#!/usr/bin/env python3
"""seedtest.py <PROP> <worktree> <n> [check ids...]
1. confirms the seeded change in the scratch worktree (build, yaotl tests unchanged, demo fails with / passes without);
2. copies it to /verif/seeded/<PROP>-<n>/;
3. applies it to /repo, runs the given checks (default: the property's own) quick, undoes it;
4. records what caught it in meta.json."""
import json, os, re, shutil, subprocess, sys, time
ENV = dict(os.environ, GOFLAGS="-mod=mod", GOPROXY="off", GOSUMDB="off", GOTOOLCHAIN="local")
prop, wt, n = sys.argv[1], sys.argv[2], sys.argv[3]
checks = sys.argv[4:] or [prop]
sd = os.path.join(wt, os.environ.get("SEED_DIRNAME", "SEED"), n)
patch = os.path.join(sd, "patch.diff")
demo = os.path.join(sd, "demo_test.go")
meta = json.load(open(os.path.join(sd, "meta.json")))
def sh(cmd, cwd, timeout=1800):
    r = subprocess.run(cmd, cwd=cwd, env=ENV, shell=True, capture_output=True, text=True, timeout=timeout)
    return r.returncode, (r.stdout + r.stderr)
txt = open(demo).read()
hdr = re.split(r"^package\s", txt, maxsplit=1, flags=re.M)[0]
m = re.search(r"teamserver/[\w/]+", hdr)
pkgdir = m.group(0) if m else None
if not pkgdir:
    print("cannot find package dir in demo header"); sys.exit(2)
dst = os.path.join(wt, pkgdir, "zz_seed_demo_test.go")
res = {}
sh("git checkout -- . ", wt)
rc, out = sh("git apply --check %s && git apply %s" % (patch, patch), wt); res["apply"] = rc
rc, out = sh("go build ./...", os.path.join(wt, "teamserver")); res["build_with_patch"] = rc
rc, out = sh("go test -vet=off -count=1 ./pkg/profile/yaotl/... 2>&1 | grep -c '^ok'", os.path.join(wt, "teamserver")); res["yaotl_ok_pkgs_with_patch"] = out.strip().splitlines()[-1] if out.strip() else ""
shutil.copy(demo, dst)
rc, out = sh("go test -vet=off -count=1 -run TestSeedDemo ./%s/" % pkgdir[len("teamserver/"):], os.path.join(wt, "teamserver")); res["demo_with_patch_rc"] = rc
os.remove(dst); sh("git checkout -- .", wt)
rc, out = sh("go test -vet=off -count=1 ./pkg/profile/yaotl/... 2>&1 | grep -c '^ok'", os.path.join(wt, "teamserver")); res["yaotl_ok_pkgs_without_patch"] = out.strip().splitlines()[-1] if out.strip() else ""
shutil.copy(demo, dst)
rc, out = sh("go test -vet=off -count=1 -run TestSeedDemo ./%s/" % pkgdir[len("teamserver/"):], os.path.join(wt, "teamserver")); res["demo_without_patch_rc"] = rc
os.remove(dst)
confirmed = res["apply"] == 0 and res["build_with_patch"] == 0 and res["demo_with_patch_rc"] != 0 and res["demo_without_patch_rc"] == 0 and res["yaotl_ok_pkgs_with_patch"] == res["yaotl_ok_pkgs_without_patch"]
print("confirmation:", res, "=>", confirmed)
if not confirmed:
    sys.exit(1)
out_dir = "/verif/seeded/%s-%s%s" % (prop, (os.environ.get("SEED_TAG") + "-") if os.environ.get("SEED_TAG") else "", n)
os.makedirs(out_dir, exist_ok=True)
shutil.copy(patch, out_dir + "/patch.diff"); shutil.copy(demo, out_dir + "/demo_test.go")
# run the checks on /repo with the patch applied (SEED_REPO: a clean worktree of /repo's HEAD to
# use instead, for when /repo itself is busy with another run)
caught = {}
REPO = os.environ.get("SEED_REPO", "/repo")
if REPO != "/repo":
    ENV["VERIF_REPO"] = REPO
rc, out = sh("git status --short | wc -l", REPO)
assert out.strip() == "0", REPO + " not clean"
rc, out = sh("git apply %s" % patch, REPO)
try:
    if rc != 0:
        print("patch does not apply to", REPO, ":", out); caught = {"error": "patch does not apply to current /repo"}
    else:
        for c in checks:
            t0 = time.time()
            rc, out = sh("./check %s quick" % c, "/verif", timeout=3000)
            lines = [l for l in out.splitlines() if l.startswith("VIOLATION") or l.startswith("violation:") or l.startswith("INCONCLUSIVE")]
            caught[c] = {"exit": rc, "seconds": round(time.time() - t0), "lines": lines[:6]}
            print(c, "exit", rc, lines[:3])
finally:
    sh("git checkout -- .", REPO)
meta.update({"property": prop, "confirmation": res, "checks_run_with_patch_applied": caught, "base_commit": subprocess.check_output(["git", "-C", "/repo", "rev-parse", "--short", "HEAD"], text=True).strip()})
json.dump(meta, open(out_dir + "/meta.json", "w"), indent=1)
print("stored", out_dir, "detected:", any(v.get("exit") == 1 for v in caught.values() if isinstance(v, dict)))
