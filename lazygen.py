def make_lazy_parser(real_src):
    """Insert p.verifEnsure(...) calls at the top of every reader of the real parser."""
    s = real_src
    s = s.replace("type Parser struct {\n\tbuffer    []byte\n\tbigEndian bool\n}", "type Parser struct {\n\tbuffer    []byte\n\tbigEndian bool\n\tlazy      *verifLazyState\n}")
    s = s.replace("\tparser.bigEndian = true\n\treturn parser", "\tparser.bigEndian = true\n\tif verifIsLazyRoot(buffer) {\n\t\tparser.lazy = &verifLazyState{}\n\t\tparser.buffer = nil\n\t}\n\treturn parser")
    hooks = {
        "func (p *Parser) CanIRead(ReadTypes []ReadType) bool {": "\tif p.lazy != nil {\n\t\tif !p.verifEnsureTypes(ReadTypes) {\n\t\t\treturn false\n\t\t}\n\t}\n",
        "func (p *Parser) ParseInt32() int {": "\tp.verifEnsure(ReadInt32)\n",
        "func (p *Parser) ParseInt64() int64 {": "\tp.verifEnsure(ReadInt64)\n",
        "func (p *Parser) ParseBool() bool {": "\tp.verifEnsure(ReadBool)\n",
        "func (p *Parser) ParseBytes() []byte {": "\tp.verifEnsure(ReadBytes)\n",
        "func (p *Parser) ParseAtLeastBytes(NumberOfBytes int) []byte {": "\tp.verifEnsureRaw(NumberOfBytes)\n",
        "func (p *Parser) Length() int {": "\tif p.lazy != nil {\n\t\tif len(p.buffer) == 0 {\n\t\t\tif !p.verifMore() {\n\t\t\t\treturn 0\n\t\t\t}\n\t\t\treturn 1 << 16\n\t\t}\n\t}\n",
    }
    for sig, ins in hooks.items():
        if sig not in s:
            raise SystemExit("lazy parser generator: signature not found: " + sig)
        s = s.replace(sig, sig + "\n" + ins, 1)
    return s
