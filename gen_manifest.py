#!/usr/bin/env python3
"""Regenerates MANIFEST.json from checks_config.py (claimed checks) + NOT_APPLICABLE."""
import json, sys, os
sys.path.insert(0, os.path.dirname(os.path.abspath(__file__)))
from checks_config import CHECKS, NOT_APPLICABLE, LEVELS

checks = []
for pid in sorted(CHECKS):
    lv = LEVELS[pid]
    checks.append({
        "property_id": pid,
        "quick_cmd": "./check %s quick" % pid,
        "thorough_cmd": "./check %s thorough" % pid,
        "evidence_file": "/verif/evidence/%s.json" % pid,
        "replay_cmd_template": "./check %s --replay {path}" % pid,
        "engine": "gosx",
        "level_claimed": {"category": "other", "text": lv["text"], "design_ref": lv.get("design_ref", "DESIGN.md §2 " + pid)},
        "level_note": lv["note"],
        "technique": "bounded symbolic execution of the real Go code (go/ssa) with SMT (z3 QF_BV/UF) deciding every branch, run-time check and assertion; counterexamples replayed natively" + lv.get("technique_suffix", ""),
    })
m = {
    "version": 1,
    "setup_cmd": "cd /verif && ./check build && ./check warm",
    "hooks": {
        "guard": "verif",
        "enable": "no hooks in /repo: harnesses and stubs are injected as overlay files (go/packages Overlay for the symbolic run, go test -overlay for native replay)",
        "baseline_off_cmd": "cd /repo/teamserver && go test -mod=mod -json -vet=off -count=1 -timeout 25m ./...",
        "source_commits": [],
        "add_only": True,
    },
    "engines": [{"name": "gosx", "path": "/verif/gosx", "serves_properties": sorted(CHECKS), "kind_free_text": "symbolic executor for go/ssa (own code, derived from x/tools/go/ssa/interp) + z3 over a pipe; native replay through go test -overlay"}],
    "checks": checks,
    "not_applicable": [{"property_id": k, "reason": v} for k, v in sorted(NOT_APPLICABLE.items())],
    "notes": "Every check regenerates its encoding from /repo's working tree on each run. Exit 0 = held within the stated bounds, 1 = violation (VIOLATION line + replay file), 2 = inconclusive (never registered as passing). Known findings: /verif/known_findings.json.",
}
json.dump(m, open(os.path.join(os.path.dirname(os.path.abspath(__file__)), "MANIFEST.json"), "w"), indent=1)
print("MANIFEST.json written:", len(checks), "checks,", len(m["not_applicable"]), "not applicable")
