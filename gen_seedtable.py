#!/usr/bin/env python3
"""Regenerates the table of seeded changes in DESIGN.md (section 7.5) from seeded/*/meta.json."""
import json, glob, os, re
root = os.path.dirname(os.path.abspath(__file__))
rows = []
for d in sorted(glob.glob(os.path.join(root, "seeded", "*", ""))):
    name = os.path.basename(os.path.dirname(d))
    m = json.load(open(os.path.join(d, "meta.json")))
    ch = m.get("checks_run_with_patch_applied", {})
    caught = []
    for k, v in sorted(ch.items()):
        ents = sorted({re.match(r"violation: (\w+)", l).group(1) for l in v.get("lines", []) if re.match(r"violation: (\w+)", l)})
        if v.get("exit") == 1:
            caught.append("%s (%s)" % (k, ", ".join(ents)) if ents else k)
    tt = m.get("thorough_tier")
    if not caught and tt:
        caught.append("%s thorough tier only (%s)" % (tt["check"], tt["entry"]))
    what = m.get("what", "").replace("|", "/").replace("\n", " ")
    if len(what) > 230:
        what = what[:227] + "..."
    rows.append("| %s | %s | %s |" % (name, what, "; ".join(caught) if caught else "**not caught** (see below)"))
table = "| seed | change | caught by (check: harnesses reporting a violation) |\n|---|---|---|\n" + "\n".join(rows)
p = os.path.join(root, "DESIGN.md")
s = open(p).read()
if "<!-- SEEDTABLE:BEGIN -->" in s:
    s = re.sub(r"<!-- SEEDTABLE:BEGIN -->.*?<!-- SEEDTABLE:END -->", "<!-- SEEDTABLE:BEGIN -->\n" + table.replace("\\", "\\\\") + "\n<!-- SEEDTABLE:END -->", s, flags=re.S)
else:
    s = s.replace("SEEDTABLE", "<!-- SEEDTABLE:BEGIN -->\n" + table + "\n<!-- SEEDTABLE:END -->", 1)
open(p, "w").write(s)
print(len(rows), "seeds,", sum(1 for r in rows if "not caught" in r), "not caught")
