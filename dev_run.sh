#!/bin/bash
# dev_run.sh <PROP> <entry> [gosx flags...]  — run one harness entry directly with a hard timeout (dev only)
PROP=$1; ENTRY=$2; shift 2
python3 - "$PROP" "$ENTRY" "$@" <<'PY'
import sys, os, tempfile, shutil, subprocess, json
sys.path.insert(0, '/verif')
import importlib.machinery, importlib.util
loader = importlib.machinery.SourceFileLoader('chk', '/verif/check')
spec = importlib.util.spec_from_loader('chk', loader); chk = importlib.util.module_from_spec(spec); loader.exec_module(chk)
prop, entry, extra = sys.argv[1], sys.argv[2], sys.argv[3:]
grp = [g for g in chk.CHECKS[prop]['groups'] if entry in g['entries']][0]
d = tempfile.mkdtemp(prefix='verif_dev.')
try:
    chk.make_overlay(grp['pkg'], d, grp.get('with', []))
    cmd = [chk.GOSX, '-dir', chk.TS, '-pkg', grp['pkg'], '-overlay', chk.SYM_ROOT.get(d, d), '-entry', entry, '-out', d + '/out.json'] + list(grp.get('flags', [])) + extra
    print(' '.join(cmd))
    env = dict(chk.ENV, GOSX_DEBUG='1', GOSX_PROGRESS='1')
    try:
        subprocess.run(cmd, env=env, timeout=int(os.environ.get('DEV_TIMEOUT', '120')))
    except subprocess.TimeoutExpired:
        print('DEV TIMEOUT')
finally:
    shutil.rmtree(d, ignore_errors=True); shutil.rmtree(d+'_sym', ignore_errors=True)
PY
